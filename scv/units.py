"""E4 - unit / offset-domain analysis over the value DAGs of facts.Body (DESIGN.md section 3, E4).

Two small abstract domains, both evaluated on gated use-def expressions (no paths, no execution):

* offset units: a set of atoms {bytes, chars} attached to integer values. Sources are a short frozen table
  (regex Match::start/end and str::len are byte offsets, chars().count() and enumerate(chars()) indices are
  character offsets, ...). Units flow through + / - / casts / phi, through struct fields (a field holds what
  is stored into it anywhere in the crate), through function parameters (what call sites pass) and through
  function results (the callee's return expression evaluated with the argument units of that call site).
  The empty set is "unknown" and is never reported: a report needs two *known*, different atoms meeting.

* string identity: the origin of a string value (the line of the session, the tokenizer's copy of it, a
  case-mapped / rewritten derivative, ...). Identity is kept by clone / to_owned / to_string / deref / borrow /
  as_str / [..] and broken by to_lowercase / to_uppercase / replace / trim / format.
"""
import re

from .facts import strip, render, walk, fn_key, is_transparent, AnchorLost, opplace

BYTES, CHARS = 'bytes', 'chars'
EMPTY = frozenset()

# callee regex -> atom ; one reason per line
SOURCES = [
    (r'^regex::(regex::string::)?Match::<.*>::(start|end)$', BYTES, 'regex match offsets are byte offsets into the haystack'),
    (r'^alloc::string::String::len$|^core::str::<impl str>::len$', BYTES, 'str::len is the length in bytes'),
    (r'^core::char::methods::<impl char>::len_utf8$', BYTES, 'bytes of one character'),
    (r'^core::str::<impl str>::(find|rfind)$', BYTES, 'str::find returns a byte offset'),
]
# iterator adaptors whose item index / count has a unit determined by the underlying string iterator
CHAR_ITER = re.compile(r'^core::str::<impl str>::chars$')
BYTE_ITER = re.compile(r'^core::str::<impl str>::(bytes|char_indices)$')
INT_TYPES = {'usize', 'u8', 'u16', 'u32', 'u64', 'u128', 'isize', 'i8', 'i16', 'i32', 'i64', 'i128'}
PASS_THROUGH = re.compile(r'Option::<.*>::(unwrap|expect|unwrap_or|unwrap_or_default|copied|cloned)$|core::cmp::(min|max)$|core::cmp::Ord::(min|max)$|'
                          r'::clone$|Into<.*>>::into$|From<.*>>::from$|TryInto<.*>>::try_into$|TryFrom<.*>>::try_from$|Result::<.*>::(unwrap|expect|unwrap_or)$|'
                          r'::saturating_(sub|add)$|::wrapping_(sub|add)$|::checked_(sub|add)$')
ELEMENT_ACCESS = re.compile(r'(Vec|slice|VecDeque)(::<.*>)?::(get|last|first|get_mut|last_mut|first_mut|iter|iter_mut|pop|remove)$|'
                            r'slice::<impl \[T\]>::(get|last|first|iter|get_mut)$|Index<.*>>::index$|IndexMut<.*>>::index_mut$|Deref>::deref$|'
                            r'Iterator>::next$|Iterator::next$|IntoIterator>::into_iter$|Iterator>?::(rev|skip|take|peekable|copied|cloned)$|Iterator for core::ops::Range<A>>::next$')


def u(*atoms):
    return frozenset(atoms)


def fmt(s):
    return '{' + ','.join(sorted(s)) + '}' if s else '{?}'


class Units:
    """whole-crate fixpoint of field / parameter units; `unit(body, expr)` afterwards"""

    def __init__(self, ctx, seeds=None, rounds=8, ret_seeds=None):
        self.ctx = ctx
        self.ret_seeds = {k: frozenset(v) for k, v in (ret_seeds or {}).items()}      # fn path -> unit of its result, decided elsewhere
        self.facts = ctx.facts
        self.cg = ctx.cg
        self.field_units = {}       # 'Adt.field' -> frozenset ; 'elem:Adt.field' for elements of a collection field
        self.field_why = {}         # 'Adt.field' -> [(atom, store site, fn)]
        self.param_units = {}       # (fn path, arg idx) -> frozenset
        self.param_why = {}         # (fn path, arg idx) -> [(atom, call site, caller)]
        self._ret_cache = {}
        for k, v in (seeds or {}).items():
            self.field_units[k] = frozenset(v)
            self.field_why.setdefault(k, []).append((sorted(v)[0], 'specification', 'the property'))
        self._bodies = [b for b in self.facts.bodies.values() if b.file.startswith('src/') and b.kind in ('fn', 'method', 'closure')]
        self.rounds_used = 0
        for n in range(rounds):
            self.rounds_used = n + 1
            self._ret_cache = {}
            if not self._pass():
                break

    # ------------------------------------------------------------------ whole-crate pass
    def _add(self, table, why, key, s, site, who):
        if not s:
            return False
        old = table.get(key, EMPTY)
        new = old | s
        for a in s - old:
            why.setdefault(key, []).append((a, site, who))
        if new != old:
            table[key] = new
            return True
        return False

    def _pass(self):
        ch = False
        for b in self._bodies:
            for i in b.normal_blocks:
                bl = b.blocks[i]
                for s in bl['stmts']:
                    if s['k'] != 'assign':
                        continue
                    if s['rv'] == 'aggr' and s.get('fields') and '::' in s.get('adt', ''):
                        base = s['adt'].rsplit('::', 1)[0]
                        for name, o in zip(s['fields'], s['ops']):
                            ty = (opplace(o) or {}).get('ty') or (o.get('const') or {}).get('ty')
                            if ty not in INT_TYPES:
                                continue
                            ch |= self._add(self.field_units, self.field_why, '%s.%s' % (base, name), self.unit(b, b.expr(o)), s['loc'], fn_key(b.path))
                    if s['lhs']['proj'] and s['lhs'].get('ty') in INT_TYPES:
                        last = s['lhs']['proj'][-1]
                        if isinstance(last, dict) and 'field' in last and s['rv'] in ('use', 'binop', 'cast'):
                            e = b.def_expr(i, 'stmt', s, 1, frozenset())
                            ch |= self._add(self.field_units, self.field_why, last['field'], self.unit(b, e), s['loc'], fn_key(b.path))
                t = bl['term']
                if t['k'] != 'call':
                    continue
                c = t.get('callee')
                if c and c['local'] and c['path'] in self.facts.bodies:
                    callee = self.facts.bodies[c['path']]
                    for n, a in enumerate(t['args'], 1):
                        ty = (opplace(a) or {}).get('ty') or (a.get('const') or {}).get('ty')
                        if ty in INT_TYPES:
                            ch |= self._add(self.param_units, self.param_why, (callee.path, n), self.unit(b, b.expr(a)), t['loc'], fn_key(b.path))
                elif c and re.search(r'Vec::<.*>::extend$|Extend<.*>>::extend$', c['path']) and len(t['args']) == 2:
                    # Vec::extend(&mut x.field, repeat(v).take(n)) stores v
                    recv = strip(b.expr(t['args'][0]))
                    rep = [x for x in _spine(b.expr(t['args'][1])) if x[0] == 'call' and re.search(r'iter::(sources::repeat::)?repeat$|iter::repeat_n$', x[1]) and x[2]]
                    if recv[0] == 'field' and len(recv) > 3 and rep:
                        ch |= self._add(self.field_units, self.field_why, 'elem:' + recv[3], self.unit(b, rep[0][2][0]), t['loc'], fn_key(b.path))
                elif c and re.search(r'Vec::<.*>::(push|insert)$', c['path']) and t['args']:
                    # element unit of a collection field: Vec::push(&mut x.field, v)
                    recv = strip(b.expr(t['args'][0]))
                    v = t['args'][-1]
                    ty = (opplace(v) or {}).get('ty') or (v.get('const') or {}).get('ty')
                    if recv[0] == 'field' and len(recv) > 3 and ty in INT_TYPES:
                        ch |= self._add(self.field_units, self.field_why, 'elem:' + recv[3], self.unit(b, b.expr(v)), t['loc'], fn_key(b.path))
        return ch

    # ------------------------------------------------------------------ expression evaluation
    def unit(self, body, e, env=None, depth=0):
        """set of unit atoms of an integer-valued expression (EMPTY = unknown)"""
        if depth > 40:
            return EMPTY
        k = e[0]
        rec = lambda x: self.unit(body, x, env, depth + 1)
        if k in ('ref', 'deref'):
            return rec(e[1])
        if k == 'const' or k in ('top', 'undef', 'loop', 'var', 'fnitem'):
            return EMPTY
        if k == 'arg':
            if env is not None:
                return env.get(e[1], EMPTY)
            return self.param_units.get((body.path, e[1]), EMPTY)
        if k == 'cast':
            return rec(e[3])
        if k == 'binop':
            op = e[1].replace('WithOverflow', '').replace('Unchecked', '')
            if op in ('Add', 'Sub'):
                return rec(e[2]) | rec(e[3])
            return EMPTY
        if k == 'unop':
            return rec(e[2]) if e[1] == 'Neg' else EMPTY
        if k == 'phi':
            out = EMPTY
            b2 = self.facts.bodies.get(e[5], body) if len(e) > 5 and e[5] else body
            for a in e[2]:
                out |= self.unit(b2 if (len(e) <= 6 or e[6] is None) else body, a, env, depth + 1)
            return out
        if k == 'field':
            base = e[1]
            # overflow-checked arithmetic: (a AddWithOverflow b).0
            if base[0] == 'binop' and base[1].endswith('WithOverflow'):
                return rec(base) if e[2].lstrip('#') == '0' else EMPTY
            full = e[3] if len(e) > 3 else None
            # item of enumerate(chars()) / char_indices(): (next(..) as Some).0.0
            it = self._iter_item_unit(body, e, env, depth)
            if it is not None:
                return it
            if full and full in self.field_units and not full.startswith('core::option::Option') and not full.startswith('core::ops::Range'):
                return self.field_units[full]
            if full and full.startswith('core::ops::range::Range'):
                return rec(base)
            # projection out of Option / tuple / reference wrappers: the unit of what is inside
            return rec(base)
        if k == 'downcast':
            return rec(e[1])
        if k == 'index':
            return self._elements(body, e[1], env, depth)
        if k == 'aggr':
            out = EMPTY
            if e[1].startswith('core::ops::range::Range') or e[1] in ('tuple',) or e[1].startswith('core::option::Option'):
                for a in e[2]:
                    out |= rec(a)
            return out
        if k == 'call':
            path = e[1]
            args = e[2]
            for rx, atom, _ in SOURCES:
                if re.search(rx, path):
                    return u(atom)
            if re.search(r'Iterator>?::count$', path) and args:
                inner = self._iter_source(args[0])
                return u(CHARS) if inner == CHARS else EMPTY
            if re.search(r'Iterator>?::position$', path) and args:
                inner = self._iter_source(args[0])
                return u(inner) if inner else EMPTY
            if re.search(r'Option::<.*>::map_or$', path) and len(args) >= 3:
                out = rec(args[0]) | rec(args[1])
                clo = self._closure_body(args[2])
                if clo is not None:
                    out |= self._ret_unit(clo, {2: rec(args[0])}, depth)
                return out
            if re.search(r'Option::<.*>::map$', path) and len(args) >= 2:
                clo = self._closure_body(args[1])
                if clo is not None:
                    return self._ret_unit(clo, {2: rec(args[0])}, depth)
                return rec(args[0])
            if PASS_THROUGH.search(path) and args:
                out = EMPTY
                for a in args:
                    out |= rec(a)
                return out
            if ELEMENT_ACCESS.search(path) and args:
                r = self._elements(body, args[0], env, depth)
                if r:
                    return r
                return rec(args[0])
            term = e[3] if len(e) > 3 and isinstance(e[3], dict) else None
            c = term.get('callee') if term else None
            if c and c.get('local') and c['path'] in self.facts.bodies:
                callee = self.facts.bodies[c['path']]
                aenv = {n: rec(a) for n, a in enumerate(args, 1)}
                return self._ret_unit(callee, aenv, depth)
            if is_transparent(path) and args:
                return rec(args[0])
            return EMPTY
        return EMPTY

    def _ret_unit(self, callee, aenv, depth):
        if callee.path in self.ret_seeds:
            return self.ret_seeds[callee.path]
        key = (callee.path, tuple(sorted((k, tuple(sorted(v))) for k, v in aenv.items() if v)))
        if key in self._ret_cache:
            return self._ret_cache[key]
        self._ret_cache[key] = EMPTY          # recursion guard
        if depth > 12 or len(callee.blocks) > 400:
            return EMPTY
        # parameters not bound by this call site fall back to the crate-wide parameter units
        env = {}
        for n in range(1, callee.argc + 1):
            env[n] = aenv.get(n) or self.param_units.get((callee.path, n), EMPTY)
        r = self.unit(callee, callee.ret_expr(), env, depth + 1)
        self._ret_cache[key] = r
        return r

    def _closure_body(self, e):
        e = strip(e)
        if e[0] == 'aggr' and e[1].startswith('closure:'):
            return self.facts.bodies.get(e[1][len('closure:'):])
        if e[0] == 'aggr' and '{closure' in e[1]:
            return self.facts.bodies.get(e[1])
        return None

    def _elements(self, body, recv, env, depth):
        """unit of the elements of a collection-valued expression (a Vec<usize> field)"""
        for x in _spine(recv):
            if x[0] == 'field' and len(x) > 3:
                r = self.field_units.get('elem:' + x[3])
                if r:
                    return r
        return EMPTY

    def _iter_source(self, e):
        """CHARS / BYTES when e is (adaptors over) str::chars() / char_indices()"""
        for x in _spine(e):
            if x[0] == 'call':
                if CHAR_ITER.search(x[1]):
                    return CHARS
                if BYTE_ITER.search(x[1]):
                    return BYTES
        return None

    def _iter_item_unit(self, body, e, env, depth):
        """`(Iterator::next(it) as Some).0.0` with it = enumerate(chars(..)) -> chars ; char_indices(..) -> bytes"""
        if e[2].lstrip('#') != '0':
            return None
        x = e[1]
        # peel .0 of the Option payload
        if x[0] == 'field' and x[2].lstrip('#') == '0' and x[1][0] == 'downcast' and x[1][2] == 'Some':
            inner = strip(x[1][1])
            if inner[0] == 'call' and re.search(r'Iterator>?::next$', inner[1]) and inner[2]:
                chain = list(_spine(inner[2][0]))
                has_enum = any(y[0] == 'call' and re.search(r'Iterator>?::enumerate$', y[1]) for y in chain)
                src = self._iter_source(inner[2][0])
                if has_enum and src == CHARS:
                    return u(CHARS)
                if not has_enum and src == BYTES and any(y[0] == 'call' and y[1].endswith('::char_indices') for y in chain):
                    return u(BYTES)
        return None

    # ------------------------------------------------------------------ explanations
    def why_param(self, path, idx, atom):
        return [(site, who) for a, site, who in self.param_why.get((path, idx), []) if a == atom]

    def why_field(self, full, atom):
        return [(site, who) for a, site, who in self.field_why.get(full, []) if a == atom]

    def explain(self, body, e, atom, depth=0):
        """one human-readable flow that gives `e` the unit `atom` (best effort)"""
        if depth > 6:
            return ''
        for x in walk(e):
            if x[0] == 'call':
                for rx, a, why in SOURCES:
                    if a == atom and re.search(rx, x[1]):
                        return '%s [%s]' % (render(x)[:60], atom)
            if x[0] == 'arg':
                w = self.why_param(body.path, x[1], atom)
                if w:
                    return 'parameter `%s` of %s, which %s passes as %s at %s' % (x[2], fn_key(body.path), w[0][1], atom, w[0][0])
            if x[0] == 'field' and len(x) > 3 and atom in self.field_units.get(x[3], ()):
                w = self.why_field(x[3], atom)
                if w:
                    return 'field %s [%s: stored by %s at %s]' % (x[3].rsplit('::', 1)[-1], atom, w[0][1], w[0][0])
        return '%s [%s]' % (render(e)[:60], atom)


def _spine(e, depth=0):
    """receiver spine: through projections, the first argument of calls, phi branches"""
    if depth > 60:
        return
    yield e
    k = e[0]
    if k in ('ref', 'deref', 'discr', 'proj?', 'field', 'downcast'):
        yield from _spine(e[1], depth + 1)
    elif k == 'index':
        yield from _spine(e[1], depth + 1)
    elif k == 'call' and e[2]:
        yield from _spine(e[2][0], depth + 1)
    elif k == 'cast':
        yield from _spine(e[3], depth + 1)
    elif k == 'phi':
        for a in e[2]:
            yield from _spine(a, depth + 1)


# ---------------------------------------------------------------------------------------------
# string identity
IDENTITY_BREAKERS = re.compile(r'::(to_lowercase|to_uppercase|to_ascii_lowercase|to_ascii_uppercase|replace|replacen|trim|trim_start|trim_end|'
                               r'trim_matches|repeat|split_at|chars|bytes|format|nfc|nfd)$')


class Origins:
    """origin of string values, interprocedural over parameters (union over call sites, incl. fn-pointer calls)"""

    def __init__(self, ctx, named_fields=None):
        self.ctx = ctx
        self.facts = ctx.facts
        self.cg = ctx.cg
        self.named_fields = named_fields or {}      # 'Adt.field' -> label
        self._param = {}

    def origin(self, body, e, depth=0, stack=()):
        """set of labels: 'LINE', 'field:<Adt.field>', 'derived:<fn>(<origin>)', 'const', '?'"""
        if depth > 30:
            return {'?'}
        k = e[0]
        if k in ('ref', 'deref'):
            return self.origin(body, e[1], depth + 1, stack)
        if k == 'cast':
            return self.origin(body, e[3], depth + 1, stack)
        if k == 'const':
            return {'const'}
        if k == 'field':
            full = e[3] if len(e) > 3 else None
            if full in self.named_fields:
                return {self.named_fields[full]}
            return {'?'}
        if k == 'phi':
            out = set()
            for a in e[2]:
                out |= self.origin(body, a, depth + 1, stack)
            return out
        if k == 'call':
            path = e[1]
            if re.search(r'session::Session::current_line$', path):
                return {'LINE'}
            m = IDENTITY_BREAKERS.search(path)
            if m and e[2]:
                inner = self.origin(body, e[2][0], depth + 1, stack)
                return {'derived:%s(%s)' % (m.group(1), '|'.join(sorted(inner)))}
            if re.search(r'alloc::fmt::format|fmt::format::format_inner', path):
                return {'derived:format'}
            if is_transparent(path) and e[2]:
                return self.origin(body, e[2][0], depth + 1, stack)
            term = e[3] if len(e) > 3 and isinstance(e[3], dict) else None
            c = term.get('callee') if term else None
            if c and c.get('local') and c['path'] in self.facts.bodies and c['path'] not in stack:
                callee = self.facts.bodies[c['path']]
                if len(callee.blocks) < 60 and not callee.loops():
                    from .facts import subst_args
                    ret = subst_args(callee.ret_expr(), list(e[2]))
                    return self.origin(body, ret, depth + 1, stack + (c['path'],))
            return {'?'}
        if k == 'arg':
            return self.param_origin(body, e[1], stack)
        return {'?'}

    def param_origin(self, body, idx, stack=()):
        key = (body.path, idx)
        if key in self._param:
            return self._param[key]
        if key in stack:
            return set()
        self._param[key] = {'?'}
        out = set()
        n = 0
        for caller in self.facts.bodies.values():
            if not caller.file.startswith('src/'):
                continue
            for bid, t in caller.calls():
                c = t.get('callee')
                targets = []
                if c and c.get('path') == body.path:
                    targets = [body.path]
                elif not c and t.get('fop') is not None:
                    # fn-pointer call: the function the pointer is known to be (a helper `run(parser)` spliced in), else the
                    # targets from the call graph
                    fe = caller.expr(t['fop'])
                    for _ in range(8):
                        if fe[0] in ('ref', 'deref'):
                            fe = fe[1]
                        elif fe[0] == 'cast':
                            fe = fe[3]
                        else:
                            break
                    if fe[0] == 'fnitem':
                        targets = [fe[1]] if fe[1] == body.path else []
                    else:
                        targets = [y for (y, kind) in self.cg.edges.get(caller.path, ()) if y == body.path and kind != 'direct']
                if body.path not in targets:
                    continue
                if idx - 1 < len(t['args']):
                    n += 1
                    out |= self.origin(caller, caller.expr(t['args'][idx - 1]), 1, stack + (key,))
        if not n:
            out = {'?'}
        self._param[key] = out
        return out
