"""Printed-text assembly (E6c): what a printer function returns as a sequence of literal characters and named parts.

A printer (`DataItem::print`, a formatter helper) builds its String from literals and from the renderings of other functions -
with format!, write!, push / push_str, concat, replace. Which way it is written does not matter to a property; the resulting
sequence does. `printed_assembly` walks the function with the E6c machine: the calls named in `leaves` return a one-symbol
string (e.g. format_number -> 'A'), crate-local helpers are entered, and the value returned is read back as a list of symbols.
"""
import re

from .absint import Machine, Unknown, is_sym, is_ptr
from . import absstr


def printed_assembly(body, args, leaves, extra_model=None, enter=None, max_steps=8000):
    """args: {parameter index: value} (other parameters are opaque); leaves: [(path regex, symbol)] -> list of symbols"""
    def model(m, path, a, t):
        for rx, symbol in leaves:
            if re.search(rx, path):
                return ('str', [symbol]) if isinstance(symbol, str) else symbol
        if extra_model is not None:
            r = extra_model(m, path, a, t)
            if r is not NotImplemented:
                return r
        return absstr.std_model(m, path, a, t)
    m = Machine(body, model, max_steps=max_steps)
    m.enter = enter or (lambda path: True)
    for i in range(1, body.argc + 1):
        if i in args:
            v = args[i]
            m.env[i] = m.alloc(v, 'arg%d' % i) if str(body.locals.get(i, '')).startswith('&') and not is_ptr(v) else v
        else:
            m.env[i] = ('sym', 'arg:%s' % body.arg_names.get(i))
    why = m.run(0)
    if why != 'return':
        raise Unknown('the walk ended with %s' % why)
    out = absstr.lit(m.deref_value(m.load(0)))
    if not absstr.is_str(out):
        raise Unknown('the result is %r' % (out,))
    return [x if isinstance(x, str) else repr(x) for x in out[1]]
