"""Oracles quoted from the property statements (properties.jsonl). One reason per entry.
Nothing here is derived from /repo; the rules compare /repo's code and tables against these."""
from fractions import Fraction as Fr

# C12: value of one unit in the family's smallest unit ("decimal metric prefixes, 12 in = 1 ft, 3 ft = 1 yd,
# 1760 yd = 1 mile (220 yd/furlong * 8 furlong/mile), 16 oz = 1 lb, 14 lb = 1 stone, 8 bit = 1 byte,
# 1024-based memory multiples"). Keyed by family, then by the unit's first configured name.
UNIT_VALUE = {
    'metric-length': {'mm': Fr(1), 'cm': Fr(10), 'dm': Fr(100), 'm': Fr(1000), 'dam': Fr(10**4), 'hm': Fr(10**5), 'km': Fr(10**6)},
    'metric-weight': {'mg': Fr(1), 'cg': Fr(10), 'dg': Fr(100), 'g': Fr(1000), 'dag': Fr(10**4), 'hg': Fr(10**5), 'kg': Fr(10**6), 'tonne': Fr(10**9)},
    'memory': {'bit': Fr(1), 'byte': Fr(8), 'kb': Fr(8 * 1024), 'mb': Fr(8 * 1024**2), 'gb': Fr(8 * 1024**3), 'tb': Fr(8 * 1024**4),
               'pb': Fr(8 * 1024**5), 'eb': Fr(8 * 1024**6), 'zb': Fr(8 * 1024**7), 'yb': Fr(8 * 1024**8)},
    'imperial-unit-length': {'in': Fr(1), 'ft': Fr(12), 'yard': Fr(36), 'furlong': Fr(36 * 220), 'mile': Fr(36 * 220 * 8)},
    'imperial-unit-weight': {'oz': Fr(1), 'lb': Fr(16), 'st': Fr(16 * 14)},
}
# kind of each family ("quantities of different kinds are never converted into each other")
FAMILY_KIND = {'metric-length': 'length', 'imperial-unit-length': 'length', 'metric-weight': 'weight',
               'imperial-unit-weight': 'weight', 'memory': 'memory'}
# bridges: (family A, unit) -> (family B, unit): 1 A-unit = factor B-units ("1 inch = 25.4 mm", "1 oz = 28.3495231 g")
BRIDGES = {
    (('imperial-unit-length', 'in'), ('metric-length', 'mm')): Fr('25.4'),
    (('imperial-unit-weight', 'oz'), ('metric-weight', 'mg')): Fr('28349.5231'),
}

# C10: "minute 60 s, hour 3600 s, day 86400 s, week 7 days, month 30 days, year 365 days"
DURATION_CONSTS = {'MINUTE': 60, 'HOUR': 3600, 'DAY': 86400, 'WEEK': 7 * 86400, 'MONTH': 30 * 86400, 'YEAR': 365 * 86400}

# C02: "the magnitude suffixes k, M, G, T, P, Z, Y scale a literal by the corresponding power of 1000"
# (position in the statement's list; what test execute_9 pins)
SUFFIX = {'k': 10.0**3, 'K': 10.0**3, 'M': 10.0**6, 'G': 10.0**9, 'T': 10.0**12, 'P': 10.0**15, 'Z': 10.0**18, 'Y': 10.0**21}

# C13: base literals
RADIX = {'BINARY': (2, 'Binary'), 'OCTAL': (8, 'Octal'), 'HEX': (16, 'Hexadecimal')}
