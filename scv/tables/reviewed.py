"""Reviewed discharges of C01/P1 (DESIGN.md section 4): sites that are safe by an argument a reader can check but
that lies outside the automatic vocabulary. Keyed without line numbers, with multiplicity: one more site with the same
key is NOT covered. `witness` names machine-checked side conditions (scv/rules/C01.py WITNESSES) that are re-evaluated
on every run; when a witness fails the entry is void and the sites are reported."""

REVIEWED = {
    # --- the three rewrite loops: indices come from find_match / the inline matcher: start <= target - 1 < len, target >= 1
    'rule_tokinizer::find_match/index/index:Vec[usize]': (6, 'rule_tokens[rule_token_index]: the counter is reset to 0 or stops at len (loop breaks when it equals total_rule_token), and every configured pattern has >= 1 token', ['patterns-nonempty', 'matcher-counter-protocol']),
    'dynamic_type_tokinizer::dynamic_type_tokinizer/index/index:Vec[usize]': (9, 'same matcher inlined (6 sites on rule_tokens) + token_infos[start], token_infos[target-1], token_infos[index in start..target] after a complete match (target <= len, start < target)', ['patterns-nonempty', 'matcher-counter-protocol']),
    'dynamic_type_tokinizer::dynamic_type_tokinizer/overflow/Sub:usize': (1, 'target_token_index - 1 after a complete match of a pattern with >= 1 token: target >= 1', ['patterns-nonempty']),
    'dynamic_type_tokinizer::dynamic_type_tokinizer/vec-position/insert': (1, 'insert at start_token_index <= len', ['matcher-counter-protocol']),
    'rule_tokinizer::rule_tokinizer/index/index:Vec[usize]': (6, 'token_infos[start], token_infos[target-1], token_infos[index in start..target] with (start, target) returned by find_match after a complete match', ['patterns-nonempty', 'matcher-counter-protocol']),
    'rule_tokinizer::rule_tokinizer/overflow/Sub:usize': (2, 'target_token_index - 1 after a complete match: target >= 1', ['patterns-nonempty']),
    'rule_tokinizer::rule_tokinizer/vec-position/insert': (2, 'insert at start_token_index <= len', ['matcher-counter-protocol']),
    'rule_tokinizer::{closure#0}/unwrap-option/unwrap<-Option::as_ref': (1, 'fields only holds tokens that find_match saw with Some(token_type) (it skips typeless tokens before comparing)', ['matcher-counter-protocol']),
    'types::find_location/bounds/BoundsCheck': (1, 'rule_tokens = the name tokens of a variable: non-empty because a binding is only created after `name = expr` parsed (tokens[0..end], end >= 1); counter protocol as in find_match', []),
    # --- variable substitution
    'variable::update_token_variables/index/index:Vec[usize]': (3, 'token_infos[index-1] inside enumerate().skip(1) (index >= 1); token_infos[remove_start], token_infos[remove_end-1] where find_location returned a full match inside the searched suffix', []),
    'variable::update_token_variables/index/index:Vec[Range]': (2, 'remove_start..remove_end is the matched window: start + size <= len', []),
    'variable::update_token_variables/index/index:Vec[RangeFrom]': (1, 'token_start_index = position of "=" + 1 <= len', []),
    'variable::update_token_variables/index/index:BTreeMap[String]': (1, 'name was taken from an iteration over the same map in the same call; nothing removes bindings (C03/V3, C04/F6)', []),
    'variable::update_token_variables/overflow/Add:usize': (2, 'sums of positions inside the token list (<= len)', []),
    'variable::update_token_variables/overflow/Sub:usize': (2, 'index - 1 under skip(1); remove_end - 1 with variable_size >= 1 (a binding has >= 1 name token)', []),
    'variable::update_token_variables/vec-position/drain': (1, 'the matched window lies inside the vector', []),
    'variable::update_token_variables/vec-position/insert': (1, 'insert at remove_start <= len after the drain', []),
    # --- parser / session cursors
    'AssignmentParser::parse/unwrap-result/unwrap<-SyntaxParser::peek_token': (1, 'an "=" token was found in a non-empty token list and the assignment parser runs first, at cursor 0', []),
    'AssignmentParser::parse/overflow/Sub:usize': (1, 'get_index() - 1 after at least one consume_token()', []),
    'AssignmentParser::parse/index/index:Vec[Range]': (1, 'tokens[0..end] with end = cursor - 1 <= len', []),
    'PrimativeParser::parse_parenthesis/unwrap-result/unwrap<-::parse': (1, 'is_ast_empty(&ast) returned false, i.e. ast is Ok(non-None)', []),
    'SyntaxParser::consume_token/overflow/Add:usize': (1, 'the cursor grows by one per consumed token; lines are bounded', []),
    'Session::next_line/overflow/Add:usize': (2, 'position < len (guarded by len > position + 1 resp. has_value)', []),
    'Session::current_line/index/index:Vec[usize]': (1, 'every caller checks has_value() first or runs on a session whose text was just set (>= 1 line, cursor 0)', ['current-line-callers']),
    # --- formatting
    'formatter::format_number/unwrap-option/unwrap<-Iterator::nth': (2, 'every position is taken in the rendering it was measured on (in front of its decimal point, or behind it up to its length) and a rendering of an f64 is ASCII, so the position is a valid character index; the witness re-walks the function over symbolic renderings on every run (the earlier argument - two renderings of one number have compatible lengths - was wrong: 1e24 has 25 characters with {} and 24 with {:.0}; repaired in /repo 3def85c)', ['format-positions-own-rendering']),
    'UiTokenCollection::update_tokens/vec-position/drain': (1, 'tokens are sorted and non-overlapping when update_tokens runs (sort() precedes the first call, C17/H3), so the start index found is <= the end index found', []),
    'UiTokenCollection::update_tokens/vec-position/insert': (1, 'insert at the start index of the drained range', []),
    # --- time of day arithmetic
    'TimeItem::calculate/chrono-date-arith/add': (1, 'the instant is today\'s date plus at most one day per evaluated line; chrono\'s range is +-262000 years (bounded line count, sane clock)', []),
    'TimeItem::calculate/chrono-date-arith/sub': (2, 'as above', []),
    'date_time_rules::time_with_timezone/chrono-naive_local/naive_local': (1, 'naive_local() of east(offset*60).from_utc_datetime(time): the instant of a time token is today\'s date at some time of day (literals are anchored on Utc::today(), clock arithmetic moves it by less than a day per operation) and |offset| < 1 day (C11/Z3): far inside chrono\'s range (sane clock)', []),
    # --- unit walk on the configured tables
    'DynamicTypeItem::calculate_unit/overflow/Sub:usize': (1, 'search_index - 1 inside the downward walk: search_index >= target.index >= 1 for the configured families', ['unit-indices-ge-1']),
    'DynamicTypeItem::calculate_unit/overflow/Add:usize': (2, 'source.index + 1 and search_index + 1 in the upward walk are bounded by the largest configured index + 1', ['unit-indices-ge-1']),
    'DynamicTypeItem::calculate/index/index:Vec[usize]': (1, 'names[0]: every configured unit has at least one name', ['unit-names-nonempty']),
}
