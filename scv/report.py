"""Obligation / finding protocol shared by all rules (DESIGN.md section 4)."""
import collections
import json
import re
import os
import time

from .build import VERIF

KNOWN_FILE = os.path.join(VERIF, 'known_findings.json')


class Rule:
    def __init__(self, rid, title, floor=None):
        self.id = rid
        self.title = title
        self.floor = floor          # minimal number of instances confirmed by hand (fail closed below)
        self.instances = 0
        self.discharged = collections.Counter()   # discharge vocabulary item -> count
        self.reviewed = 0
        self.samples = []
        self.analysed = []          # free-form "what was analysed" strings


class Ctx:
    def __init__(self, prop, tier, facts, cg, config, repo, cfg_name='dev'):
        self.prop = prop
        self.tier = tier
        self.facts = facts
        self.cg = cg
        self.config = config
        self.repo = repo
        self.cfg_name = cfg_name
        self.rules = collections.OrderedDict()
        self.findings = []          # dicts: rule,key,site,what,detail
        self.notes = []
        self.checker_defects = []   # positive control failures etc.
        self.assumptions = []
        self.trusted = []
        self.t0 = time.time()
        self.functions = set()
        self._eval_reach = None

    # ---------------------------------------------------------------- rule bookkeeping
    def rule(self, rid, title, floor=None):
        r = self.rules.get(rid)
        if r is None:
            r = Rule(rid, title, floor)
            self.rules[rid] = r
        return r

    def ok(self, rid, what, by='shape', site=None, sample=True, reviewed=False):
        """one obligation of rule `rid` examined and discharged"""
        r = self.rules[rid]
        r.instances += 1
        r.discharged[by] += 1
        if reviewed:
            r.reviewed += 1
        if sample and len(r.samples) < 4:
            r.samples.append({'rule': rid, 'obligation': what, 'site': site, 'verdict': 'discharged: ' + by})

    def finding(self, rid, key, what, site=None, detail=None):
        """one obligation of rule `rid` examined and NOT discharged"""
        r = self.rules[rid]
        r.instances += 1
        full = '%s/%s/%s' % (self.prop, rid, re.sub(r'\s+', '_', key))
        self.findings.append({'rule': rid, 'key': full, 'what': what, 'site': site, 'detail': detail})
        if len(r.samples) < 6:
            r.samples.append({'rule': rid, 'obligation': what, 'site': site, 'verdict': 'NOT discharged', 'key': full})

    def lost(self, rid, what):
        """anchor lost / floor missed: fail closed"""
        self.finding(rid, 'anchor-lost/' + what.split(':')[0][:60], 'anchor lost: ' + what)

    def note(self, text):
        self.notes.append(text)

    def analysed(self, rid, text):
        self.rules[rid].analysed.append(text)

    def fn(self, body):
        self.functions.add(body.path if hasattr(body, 'path') else str(body))

    # ---------------------------------------------------------------- shared derived facts
    EVAL_ENTRIES = ['smartcalc::SmartCalc::execute', 'smartcalc::SmartCalc::execute_session',
                    'smartcalc::SmartCalc::basic_execute', 'smartcalc::SmartCalc::format_result']

    def eval_reach(self):
        if self._eval_reach is None:
            for e in self.EVAL_ENTRIES[:2]:
                if e not in self.facts.bodies:
                    raise_lost('evaluation entry point %s not found' % e)
            self._eval_reach = self.cg.reachable([e for e in self.EVAL_ENTRIES if e in self.facts.bodies])
        return self._eval_reach

    # ---------------------------------------------------------------- finish
    def finish(self, out=None):
        import sys
        out = out or sys.stdout
        # floors
        for r in self.rules.values():
            if r.floor is not None and r.instances < r.floor:
                self.findings.append({'rule': r.id, 'key': '%s/%s/floor' % (self.prop, r.id),
                                      'what': 'anchor lost: rule %s enumerated %d instances, floor is %d (%s)' % (r.id, r.instances, r.floor, r.title),
                                      'site': None, 'detail': None})
        known = load_known()
        mine = [k for k in known if k.get('property') == self.prop]
        budget = collections.Counter()
        for k in mine:
            if k.get('status') == 'known':
                # count "*": a root-cause entry - an unbounded user quantity reaches a panicking API inside this function; how many
                # call sites of that API the function spells it with (an early return duplicates one) is immaterial
                budget[k['key']] += (10 ** 6 if k.get('count') == '*' else int(k.get('count', 1)))
        kf_hits = collections.OrderedDict()
        violations = []
        for f in self.findings:
            if budget.get(f['key'], 0) > 0:
                budget[f['key']] -= 1
                kf_hits.setdefault(f['key'], []).append(f)
            else:
                violations.append(f)
        scratch = bool(os.environ.get('SCV_NO_EVIDENCE'))
        vdir = os.path.join(VERIF, 'evidence', 'violations') if not scratch else os.path.join('/tmp', 'scv-violations-%d' % os.getpid())
        os.makedirs(vdir, exist_ok=True)
        for fn_ in os.listdir(vdir):
            if fn_.startswith(self.prop + '-'):
                os.remove(os.path.join(vdir, fn_))
        for r in self.rules.values():
            print('[%s] rule %-4s %-62s instances=%d%s discharged=%s' % (
                self.prop, r.id, r.title[:62], r.instances, (' floor=%d' % r.floor) if r.floor is not None else '',
                dict(r.discharged)), file=out)
        for n in self.notes:
            print('NOTE: property=%s %s' % (self.prop, n), file=out)
        kmap = {k['key']: k for k in mine}
        for key, fs in kf_hits.items():
            k = kmap[key]
            sites = sorted(set(f['site'] for f in fs if f['site']))
            print('KNOWN-FINDING: property=%s %s [key=%s x%d%s]' % (self.prop, k.get('what', fs[0]['what']), key, len(fs),
                                                                   (' at ' + ', '.join(sites[:4])) if sites else ''), file=out)
        stale = [k['key'] for k in mine if k.get('status') == 'known' and k['key'] not in kf_hits]
        for n, f in enumerate(violations, 1):
            path = os.path.join(vdir, '%s-%d.json' % (self.prop, n))
            with open(path, 'w') as fh:
                json.dump(f, fh, indent=1, ensure_ascii=False, default=str)
            print('  violation: %s' % f['what'], file=out)
            if f['site']:
                print('     at %s' % f['site'], file=out)
            print('     key %s' % f['key'], file=out)
            print('VIOLATION property=%s replay=%s' % (self.prop, path), file=out)
        if not scratch:
            self.write_evidence(violations, kf_hits, stale)
        else:
            import shutil
            shutil.rmtree(vdir, ignore_errors=True)
        if self.checker_defects:
            for d in self.checker_defects:
                print('CHECKER-DEFECT: %s' % d, file=out)
            return 2 if not violations else 1
        return 1 if violations else 0

    def write_evidence(self, violations, kf_hits, stale):
        obligations = sum(r.instances for r in self.rules.values())
        discharged = sum(sum(r.discharged.values()) for r in self.rules.values())
        by_vocab = collections.Counter()
        for r in self.rules.values():
            by_vocab.update(r.discharged)
        nontrivial = sum(c for v, c in by_vocab.items() if v != 'const') + len(self.findings)
        samples = []
        for r in self.rules.values():
            samples += r.samples[:3]
        ev = {
            'property_id': self.prop,
            'tier': self.tier,
            'seed': int(os.environ.get('VERIF_SEED', '0') or 0),
            'level': 'other',
            'coverage': {
                'explanation': 'static analysis of /repo\'s current tree (MIR facts exported by a rustc_private driver + the '
                               'embedded config.json); rules: ' + '; '.join('%s %s' % (r.id, r.title) for r in self.rules.values()),
                'obligations': obligations,
                'discharged': discharged,
                'evaluations': obligations,
                'distinct_nontrivial': nontrivial,
                'rule': 'one evaluation = one rule instance (obligation) enumerated from the current tree; non-trivial = not discharged by plain constant folding',
                'discharged_by': dict(by_vocab),
                'reviewed_discharges': sum(r.reviewed for r in self.rules.values()),
                'known_findings': {k: len(v) for k, v in kf_hits.items()},
                'stale_known_findings': stale,
                'violations': [v['key'] for v in violations],
                'rules': [{'id': r.id, 'title': r.title, 'instances': r.instances, 'floor': r.floor,
                           'discharged': dict(r.discharged), 'analysed': r.analysed[:40]} for r in self.rules.values()],
                'functions_analysed': len(self.functions),
                'functions': sorted(self.functions)[:400],
                'build_config': self.cfg_name,
                'bodies_in_fact_base': len(self.facts.bodies) if self.facts else 0,
                'notes': self.notes,
                'samples': samples[:24] or [{'note': 'no obligations enumerated'}],
                'checker_cmd': './check %s --tier %s' % (self.prop, self.tier),
                'trusted_base': self.trusted or ['rustc MIR construction (nightly)', 'regex-syntax 0.8 HIR translation',
                                                 'frozen tables under scv/tables', 'behaviour of std/chrono/regex inside their documented domains'],
                'exhaustive': False,
            },
            'assumptions': self.assumptions,
            'wall_s': round(time.time() - self.t0, 3),
            'violations': len(violations),
        }
        os.makedirs(os.path.join(VERIF, 'evidence'), exist_ok=True)
        with open(os.path.join(VERIF, 'evidence', '%s.json' % self.prop), 'w') as fh:
            json.dump(ev, fh, indent=1, ensure_ascii=False, default=str)


def raise_lost(msg):
    from .facts import AnchorLost
    raise AnchorLost(msg)


def load_known():
    if not os.path.exists(KNOWN_FILE):
        return []
    with open(KNOWN_FILE) as fh:
        return json.load(fh).get('findings', [])
