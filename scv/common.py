"""Helpers shared by several property modules (decision-table extraction, pattern/field checks)."""
import re

from .facts import render, strip, alternatives, resolve_conds, cond_str, walk, AnchorLost, fn_key, inline_calls, inlinable
from .data import abstract_tokens
from . import model


OPS = {'Add': 'Add', 'Sub': 'Sub', 'Mul': 'Mul', 'Div': 'do_divition'}


def check_binop_table(ctx, b, rid, result_adt, same_kind_quotient):
    """shared by NUMBER / MONEY / DYNAMIC_TYPE calculate(): `match operation_type {Add: l+r, Sub: l-r, Mul: l*r,
    Div: do_divition(l, r)}` with (l, r) = (self, other) when on_left; result built with self's unit/currency/type;
    a same-kind quotient returns a NumberItem."""
    F = ctx.facts
    adt = F.adts.get('compiler::OperationType')
    if not adt:
        raise AnchorLost('enum compiler::OperationType not found')
    discr = {v['name']: v['discr'] for v in adt['variants']}
    table = {}
    raw = {}
    for i in b.normal_blocks:
        bl = b.blocks[i]
        nodes = [(s, 'stmt') for s in bl['stmts'] if s['k'] == 'assign' and s['rv'] == 'binop' and s['op'] in ('Add', 'Sub', 'Mul', 'Div') and s['lhs']['ty'] == 'f64']
        t = bl['term']
        if t['k'] == 'call' and t.get('callee') and t['callee']['path'].endswith('tools::do_divition'):
            nodes.append((t, 'call'))
        for node, kind in nodes:
            conds = [(render(d), v) for (_, d, v) in b.conditions(i)]
            opc = [v for (d, v) in conds if 'operation_type' in d and d.startswith('discr(')]
            if not opc:
                continue
            v = opc[-1]
            if isinstance(v, tuple):
                rest = set(discr.values()) - set(v[1])
                if len(rest) != 1:
                    continue
                val = list(rest)[0]
            else:
                if len(v) != 1:
                    continue
                val = list(v)[0]
            variant = [n for n, dv in discr.items() if dv == val]
            if not variant:
                continue
            if kind == 'stmt':
                op = node['op']
                l, r = b.expr(node['ops'][0]), b.expr(node['ops'][1])
                loc = node['loc']
            else:
                op = 'do_divition'
                l, r = b.expr(node['args'][0]), b.expr(node['args'][1])
                loc = node['loc']
            table.setdefault(variant[0], []).append((op, l, r, loc))
            raw.setdefault(variant[0], []).append((l, r))
    for variant, want in OPS.items():
        rows = table.get(variant, [])
        if not rows:
            ctx.finding(rid, '%s/%s-missing' % (short_fn(b), variant), 'no arithmetic found under OperationType::%s' % variant, site=b.loc)
            continue
        for op, l, r, loc in rows:
            bad = None
            if op != want:
                bad = 'OperationType::%s computes %s' % (variant, op)
            else:
                # operand order: left operand must be the `on_left` selection with self first
                lo = operand_order(b, l, r)
                if lo == 'swapped':
                    bad = 'OperationType::%s has its operands swapped: %s(%s, %s)' % (variant, op, render(l)[:60], render(r)[:60])
                elif lo is None:
                    bad = 'operands of OperationType::%s not recognised: (%s, %s)' % (variant, render(l)[:80], render(r)[:80])
            if bad:
                ctx.finding(rid, '%s/%s' % (short_fn(b), variant), bad, site=loc)
            else:
                ctx.ok(rid, '%s: %s(left, right)' % (variant, op), 'gamma', site=loc)
    return raw


def operand_order(b, l, r):
    """(left, right) are built as `if on_left {(self.0, other)} else {(other, self.0)}`. With the gamma
    expansion: under on_left != 0 the first operand must be self.0 and the second must not be; under
    on_left == 0 the reverse. Returns 'ok' | 'swapped' | None (not recognised)."""
    def own(x):
        # `self.get_price()` of a one-line accessor is `self.0`: the accessor is read, not trusted by its name
        return render(inline_calls(b.facts, x, depth=1, skip=r'^(?!<?compiler::)'))

    def pick(e):
        got = {}
        for a, conds in alternatives(b, e):
            cs = [cond_str(d, v) for d, v in resolve_conds(b, conds)]
            flag = [c for c in cs if c.startswith('on_left')]
            if not flag:
                return None
            got['T' if flag[-1].endswith('!=[0]') else 'F'] = own(a)
        return got
    L, R = pick(l), pick(r)
    if not L or not R or set(L) != {'T', 'F'} or set(R) != {'T', 'F'}:
        # no on_left gating: plain (self, other)
        ls, rs = own(l), own(r)
        if ls == 'self.0' and rs != 'self.0':
            return 'ok'
        if rs == 'self.0' and ls != 'self.0':
            return 'swapped'
        return None
    if L['T'] == 'self.0' and R['F'] == 'self.0' and R['T'] != 'self.0' and L['F'] != 'self.0':
        return 'ok'
    if R['T'] == 'self.0' and L['F'] == 'self.0' and L['T'] != 'self.0' and R['F'] != 'self.0':
        return 'swapped'
    return None


def short_fn(b):
    return fn_key(b.path)




def rule_body(ctx, rule_name):
    """body of the function registered under `rule_name` in RULE_FUNCTIONS (small_date is installed by set_date_rule)"""
    if rule_name == 'small_date':
        return ctx.facts.one(r'rules::date_rules::small_date$')
    fns = model.rule_functions(ctx)
    if rule_name not in fns:
        raise AnchorLost('rule %r is not registered in RULE_FUNCTIONS' % rule_name)
    return ctx.facts.body(fns[rule_name])


def pattern_field_check(ctx, rid, rule_name, notes_only=False):
    """Every field name the rule function requires (contains_key) is bound by every pattern of that rule in
    every language, and every typed getter is given a field whose type can produce a token kind it accepts.
    Returns number of (pattern, field) pairs examined."""
    b = rule_body(ctx, rule_name)
    ctx.fn(b)
    reads = model.fields_read(ctx, b)
    required = sorted(set(n for n, how, _ in reads if how == 'contains_key'))
    getters = [(n, how, t) for n, how, t in reads if how.startswith('get_')]
    acc = model.getter_accepts(ctx)
    tnames = model.token_type_names(ctx)
    n = 0
    for lang in sorted(ctx.config.languages):
        pats = [(rn, p, org) for rn, p, org in model.all_patterns(ctx, lang) if rn == rule_name]
        for rn, p, org in pats:
            bound = {t[2]: (t[1], t[3]) for t in abstract_tokens(p) if t[0] == 'field'}
            for name in required:
                n += 1
                if name not in bound:
                    msg = 'rule %s requires field %r but pattern %r (%s) binds %s: the rule can never fire through this pattern' % (rule_name, name, p, lang, sorted(bound))
                    if notes_only:
                        ctx.note('%s: %s' % (rid, msg))
                    else:
                        ctx.finding(rid, '%s/%s/%s/unbound-%s' % (rule_name, lang, p, name), msg, site=org)
                else:
                    ctx.ok(rid, '%s[%s] %r binds %r' % (rule_name, lang, p, name), 'data', sample=False)
            for name, how, t in getters:
                if name not in bound:
                    continue
                ftype = bound[name][0]
                kinds = model.accepted_token_kinds(ctx, ftype)
                if kinds is None:
                    continue
                can = {tnames.get(k) for k in acc.get(how, set())}
                n += 1
                if not (kinds & can):
                    msg = 'rule %s reads field %r with %s (accepts %s) but pattern %r (%s) binds it as {%s} which yields %s' % (
                        rule_name, name, how, sorted(x for x in can if x), p, lang, ftype, sorted(kinds))
                    if notes_only:
                        ctx.note('%s: %s' % (rid, msg))
                    else:
                        ctx.finding(rid, '%s/%s/%s/type-%s' % (rule_name, lang, p, name), msg, site=org)
                else:
                    ctx.ok(rid, '%s[%s] %r: %s(%r) accepts {%s}' % (rule_name, lang, p, how, name, ftype), 'data', sample=False)
    return n


def result_alternatives(b):
    """[(variant of Result ('Ok'/'Err'), inner expr, conds)] of a function returning Result<..>"""
    out = []
    ret = b.local_expr(0)
    if strip(ret)[0] == 'call' and inlinable(b.facts, strip(ret)[1]) is not None:
        # the rule function delegates to a crate-local helper (a shared body, a closure-parameterised combinator): its
        # result is the helper's result with the arguments substituted; the field getters stay leaves
        ret = inline_calls(b.facts, ret, depth=2, skip=r'^tokinizer::tools::get_|^tools::')
    for a, conds in alternatives(b, ret):
        a = strip(a)
        if a[0] == 'aggr' and a[1].startswith('core::result::Result::'):
            v = a[1].rsplit('::', 1)[1]
            for inner, c2 in alternatives(b, a[2][0], _conds=conds):
                out.append((v, strip(inner), c2))
        else:
            out.append(('?', a, conds))
    return out


def getter_leaf(e):
    """`tools::get_X(.., "name", fields) as Some.0`  ->  (getter, name) else None"""
    if e[0] == 'field' and e[1][0] == 'downcast' and e[1][2] == 'Some':
        c = strip(e[1][1])
        if c[0] == 'call' and re.match(r'^tokinizer::tools::get_', c[1]):
            names = [model.const_str(a) for a in c[2]]
            names = [x for x in names if x is not None]
            if names:
                return (c[1].rsplit('::', 1)[1], names[0])
    return None


# ---------------------------------------------------------------------------------------------
# literal readers (number / money / percent): value = f64 parse of the normalised group text
def _unwrap_result(e):
    """peel Result::unwrap(..) / (.. as Ok).0 / Option::unwrap / (.. as Some).0"""
    while True:
        e = strip(e)
        if e[0] == 'call' and re.search(r'(Result|Option)::<.*>::(unwrap|expect|unwrap_or_default)$|(Result|Option)::(unwrap|expect)$', e[1]) and e[2]:
            e = e[2][0]
        elif e[0] == 'field' and e[1][0] == 'downcast' and e[1][2] in ('Ok', 'Some'):
            e = e[1][1]
        else:
            return e


def reader_core(e):
    """-> (group name, None) when e is  parse::<f64>( replace( replace( <capture group text>, thousand, "" ), decimal, "." ) )
       -> (None, reason) otherwise"""
    e = _unwrap_result(e)
    if e[0] != 'call' or not re.search(r'str.*::parse$', e[1]):
        return None, 'the value is not the result of str::parse (%s)' % render(e)[:100]
    gen = e[3]['callee'].get('gen', []) if isinstance(e[3], dict) and e[3].get('callee') else []
    if gen != ['f64']:
        return None, 'parsed as %s, not as f64' % gen
    r2 = strip(e[2][0])
    if r2[0] != 'call' or not re.search(r'str.*::replace$', r2[1]):
        return None, 'the parsed text is not `.replace(decimal separator, ".")` of something (%s)' % render(r2)[:100]
    a_from, a_to = render(r2[2][1]), render(r2[2][2])
    r1 = strip(r2[2][0])
    if r1[0] != 'call' or not re.search(r'str.*::replace$', r1[1]):
        return None, 'the thousands separator is not removed before the decimal separator is replaced (%s)' % render(r1)[:100]
    b_from, b_to = render(r1[2][1]), render(r1[2][2])

    def every_branch(x, want):
        """the separator is the configured one on every path (a merged value: each of its arms)"""
        x = strip(x)
        if x[0] == 'phi':
            return all(every_branch(br, want) for br in x[2] if br[0] != 'loop')
        return want in render(x)
    if not every_branch(r2[2][1], 'config.decimal_seperator') or a_to != '"."':
        return None, 'outer replace is (%s -> %s), expected (decimal separator -> ".")' % (a_from[:60], a_to)
    if not every_branch(r1[2][1], 'config.thousand_separator') or b_to != '""':
        return None, 'inner replace is (%s -> %s), expected (the configured thousands separator -> "" on every path)' % (b_from[:90], b_to)
    g = _unwrap_result(r1[2][0])
    if g[0] == 'call' and re.search(r'Captures::<.*>::name$|Captures::name$', g[1]):
        name = model.const_str(g[2][1])
        if name:
            return name, None
    return None, 'the text read is %s, not a named capture group' % render(g)[:100]


def literal_values(ctx, b, payload, opaque=None):
    """alternatives of a literal's numeric payload after inlining local helpers: [(core expr, factor expr or None, conds)]"""
    from .facts import inline_calls
    e = inline_calls(ctx.facts, payload, depth=2, skip=opaque)
    out = []
    for a, conds in alternatives(b, e):
        a = strip(a)
        if a[0] == 'binop' and a[1] == 'Mul':
            for core, c2 in alternatives(b, a[2], _conds=conds):
                out.append((strip(core), a[3], c2))
        else:
            out.append((a, None, conds))
    return out


def check_literal_reader(ctx, rid, parser_regex, token_variant, groups, key):
    """every decimal alternative of the literal's value is the f64 parse of the normalised text of one of `groups`"""
    b = ctx.facts.one(parser_regex)
    ctx.fn(b)
    aggs = [s for i in b.normal_blocks for s in b.blocks[i]['stmts']
            if s['k'] == 'assign' and s['rv'] == 'aggr' and s['adt'] == 'types::TokenType::' + token_variant]
    if not aggs:
        raise AnchorLost('%s constructs no TokenType::%s' % (fn_key(b.path), token_variant))
    n = 0
    shapes = []
    for s in aggs:
        for core, factor, conds in literal_values(ctx, b, b.expr(s['ops'][0])):
            txt = render(core)
            if 'from_str_radix' in txt or (core[0] == 'const' and core[2] == 0.0):
                continue    # based literals are C13's; 0.0 is the initial value of the accumulator
            g, why = reader_core(core)
            n += 1
            if g is None:
                ctx.finding(rid, '%s/value' % key, '%s: %s' % (fn_key(b.path), why), site=s['loc'])
            elif g not in groups:
                ctx.finding(rid, '%s/group' % key, '%s reads group %r, expected one of %s' % (fn_key(b.path), g, groups), site=s['loc'])
            else:
                shapes.append(g)
                ctx.ok(rid, '%s: value = parse::<f64>(text(%s) - thousands, decimal -> ".")%s' % (fn_key(b.path), g, ' * suffix' if factor is not None else ''), 'shape', site=s['loc'])
                # acceptance: once the regex matched, the literal is turned down only when that parse fails - any other
                # decision taken on the matched text rejects literals the convention allows (or that the converter writes)
                from .facts import implied, norm_cond
                blk = [k for k in b.normal_blocks if s in b.blocks[k]['stmts']][0]
                atoms = []
                for d, v in list(conds) + [(d, v) for (_, d, v) in b.conditions(blk)]:
                    atoms += implied(b, *norm_cond(d, v))
                seen_t = set()
                for d, v in atoms:
                    t = render(d)
                    if t in seen_t:
                        continue
                    seen_t.add(t)
                    if ('"%s"' % g) in t and not re.match(r'discr\((Result::ok\()?str::parse|discr\((Option::unwrap\()?Captures::name\(|discr\(phi', t):
                        ctx.finding(rid, '%s/extra-acceptance-test' % key, '%s: the matched text of group %s is additionally tested by %s before it becomes a value; only a failing f64 parse may reject a matched literal' % (
                            fn_key(b.path), g, t[:140]), site=s['loc'])
    if not n:
        raise AnchorLost('%s: no decimal value alternative found' % fn_key(b.path))
    return shapes


# ---------------------------------------------------------------------------------------------
# case-insensitive comparison of text payloads (C03 names, C16 keywords)
COMPARE_FAMILY = [
    r'^<types::TokenType as core::cmp::PartialEq>::eq$',
    r'^types::<impl core::cmp::PartialEq<types::TokenType> for tokinizer::TokenInfo>::eq$',
    r'^types::<impl core::cmp::PartialEq for tokinizer::TokenInfo>::eq$',
    r'^types::TokenType::field_compare($|::\{closure)',
    r'^types::TokenType::variable_compare$',
    r'^<types::FieldType as core::cmp::PartialEq>::eq$',
    r'^types::SmartCalcAstType::field_compare($|::\{closure)',
]


def _is_text_payload(e):
    """is e (after dropping ref/deref only) the payload of a Text / Symbol value, or a captured/iterated word?"""
    e = strip(e)
    return e[0] == 'field' and e[1][0] == 'downcast' and e[1][2] in ('Text', 'Symbol')


def _helper_compares_lowercased(hb):
    """is `hb` of the shape fn(a, b) -> bool { a.to_lowercase() == b.to_lowercase() } (any argument order, refs ignored)?"""
    if hb.argc != 2 or hb.loops() or len(hb.blocks) > 12:
        return False
    r = strip(hb.ret_expr(), transparent=False)
    if r[0] != 'call' or not re.search(r'PartialEq.*::(eq)$', r[1]) or len(r[2]) != 2:
        return False
    sides = []
    for a in r[2]:
        a = strip(a, transparent=False)
        if a[0] != 'call' or not a[1].endswith('::to_lowercase') or not a[2]:
            return False
        root = strip(a[2][0])
        if root[0] != 'arg':
            return False
        sides.append(root[1])
    return sorted(sides) == [1, 2]


def check_case_insensitive_compares(ctx, rid, floor_total=10):
    """In the comparison family every string equality on a Text/Symbol payload (and every comparison inside the
    expected-word closures of field_compare) lower-cases both sides; a payload handed to any other comparison is reported."""
    n_ok = 0
    per_member = {}
    touches_text = set()
    for rx in COMPARE_FAMILY:
        bodies = ctx.facts.find(rx)
        if not bodies:
            raise AnchorLost('comparison function /%s/ not found' % rx)
        per_member[rx] = 0
        for b in bodies:
            before = n_ok
            if any(isinstance(pe, dict) and pe.get('downcast') in ('Text', 'Symbol') for i_ in b.normal_blocks for st_ in b.blocks[i_]['stmts'] if st_['k'] == 'assign'
                   for o_ in st_['ops'] for pe in ((o_.get('copy') or o_.get('move') or {}).get('proj', []))):
                touches_text.add(rx)
            ctx.fn(b)
            in_closure = b.kind == 'closure'
            env = None
            if in_closure:
                # captured values: resolve `env.#k` through the aggregate the creating function builds
                parent = ctx.facts.bodies.get(b.rec.get('parent') or '')
                if parent is not None:
                    agg = model._closure_sites(ctx.facts, parent).get(b.path)
                    if agg is not None:
                        env = [agg] + [('arg', j + 1, b.arg_names.get(j + 1)) for j in range(1, b.argc)]
            for bid, t in b.calls():
                c = t.get('callee')
                if not c:
                    continue
                path = c['path']
                args = [b.expr(a) for a in t['args']]
                if env is not None:
                    from .facts import subst_args
                    args = [subst_args(a, env) for a in args]
                direct = [a for a in args if _is_text_payload(a)]
                is_eq = bool(re.search(r'PartialEq.*::(eq|ne)$', path))
                str_typed = any(re.search(r'String|str', (a.get('copy') or a.get('move') or {}).get('ty', '')) for a in t['args'])
                if direct and c.get('local') and path in ctx.facts.bodies and _helper_compares_lowercased(ctx.facts.bodies[path]):
                    # a crate-local helper that lower-cases both of its parameters before comparing them (extract-method of the idiom)
                    n_ok += 1
                    per_member[rx] += 1
                    ctx.ok(rid, '%s: %s(..) = to_lowercase(a) == to_lowercase(b)' % (fn_key(b.path), fn_key(path)), 'shape', site=t['loc'], sample=n_ok < 3)
                    continue
                if direct and not re.search(r'::to_lowercase$|::clone$|::to_string$|Deref>::deref$|::to_owned$|fmt::|::as_str$|Option::<.*>::(as_ref|map_or|map|is_some|is_none|as_deref)$', path):
                    ctx.finding(rid, '%s/raw-text-compare/%s' % (fn_key(b.path), path.rsplit('::', 1)[-1]),
                                '%s hands a text payload to %s without lower-casing it: the comparison is not case-insensitive the way keys are built (to_lowercase)' % (fn_key(b.path), path), site=t['loc'])
                    continue
                if is_eq and str_typed:
                    sl = [strip(a, transparent=False) for a in args]
                    lows = [x[0] == 'call' and x[1].endswith('::to_lowercase') for x in sl]
                    textual = in_closure or any(_is_text_payload(y) for a in args for y in walk(a))
                    if not textual:
                        continue
                    if all(lows):
                        n_ok += 1
                        per_member[rx] += 1
                        ctx.ok(rid, '%s: to_lowercase(..) == to_lowercase(..)' % fn_key(b.path), 'shape', site=t['loc'], sample=n_ok < 3)
                    else:
                        ctx.finding(rid, '%s/one-sided-lowercase' % fn_key(b.path), '%s compares %s with %s: not both sides are lower-cased' % (fn_key(b.path), render(args[0])[:60], render(args[1])[:60]), site=t['loc'])
    # (per-member counts are accumulated below)
    # every member of the comparison family that looks at a text payload must compare it lower-cased at least once; the total
    # is only a vacuity guard (merging two arms into one helper call must not trip it)
    for rx, cnt in sorted(per_member.items()):
        if cnt == 0 and rx in touches_text:
            ctx.finding(rid, 'case-insensitive-compares/%s' % re.sub(r'[^A-Za-z:_]', '', rx)[-40:], 'anchor lost: no lower-cased text comparison left in %s although it still inspects text payloads' % rx)
    if n_ok < max(5, floor_total // 2):
        ctx.finding(rid, 'case-insensitive-compares/count', 'anchor lost: only %d lower-cased text comparisons found in the comparison family (%d on the pinned tree)' % (n_ok, floor_total))
    return n_ok


def always_through(e, rx, depth=0):
    """does every definition of the value e pass through a call matching rx? Walks through references, identity-like
    calls, Cow / Option constructors and *all* branches of merged values; anything else that is not such a call says no"""
    if depth > 40:
        return False
    while e[0] in ('ref', 'deref') or (e[0] == 'cast' and str(e[1]).startswith('PointerCoercion')):
        e = e[3] if e[0] == 'cast' else e[1]
    if e[0] == 'call':
        if re.search(rx, e[1]):
            return True
        from .facts import is_transparent
        if (is_transparent(e[1]) or re.search(r'Cow<.*>::(into_owned|as_ref)$|::as_str$|Index<.*>>::index$|String::as_str$', e[1])) and e[2]:
            return always_through(e[2][0], rx, depth + 1)
        return False
    if e[0] == 'phi':
        brs = [b for b in e[2] if b[0] != 'loop']
        return bool(brs) and all(always_through(b, rx, depth + 1) for b in brs)
    if e[0] == 'aggr' and re.search(r'borrow::Cow::(Borrowed|Owned)$|option::Option::Some$', str(e[1])) and e[2]:
        return always_through(e[2][0], rx, depth + 1)
    if e[0] in ('field', 'downcast'):
        return always_through(e[1], rx, depth + 1)
    return False




def unique_field_names(ctx, rid, rules, floor=None):
    """A rule function receives its fields as a map from name to token: a pattern that names two fields alike binds only the
    last one (the earlier token is consumed by the match and silently dropped). Every pattern of the given rules, in every
    language, must name its fields apart."""
    from .data import abstract_tokens
    ctx.rule(rid, 'a pattern names its fields apart', floor=floor)
    from . import model
    n = 0
    for lang in sorted(ctx.config.languages):
        for rn, p, org in model.all_patterns(ctx, lang):
            if rn not in rules:
                continue
            names = [t[2] for t in abstract_tokens(p) if t[0] == 'field']
            dup = sorted(set(x for x in names if names.count(x) > 1))
            n += 1
            if dup:
                ctx.finding(rid, '%s/%s/%s/duplicate-field' % (rn, lang, p), 'pattern %r of rule %s (%s) binds the field name(s) %s more than once: the rule function sees only the last of them, the other matched token is dropped'
                            % (p, rn, lang, dup), site=org)
            else:
                ctx.ok(rid, '%s[%s] %r: %d distinct field names' % (rn, lang, p, len(names)), 'data', site=org, sample=False)
    if not n:
        from .facts import AnchorLost
        raise AnchorLost('no pattern found for the rules %s' % sorted(rules))


# ---------------------------------------------------------------------------------------------
# Field reads: the typed getters of tokinizer::tools and the token payload read directly are the same value.
# get_time("f", fields) is `match fields.get("f").token_type { Time(t, tz) => Some((t, tz)), Variable(v) => the TimeItem's
# (t, tz), _ => None }`; a rule function that spells that match itself (or reads the payload of a token whose kind its
# pattern fixes) reads the same thing. canon_field_reads rewrites the direct spellings to the getter spelling, position by
# position, so rules written in the getter vocabulary see both.
KIND_GETTER = {'Time': ('get_time', 2), 'Date': ('get_date', 2), 'DateTime': ('get_date_time', 2), 'Timezone': ('get_timezone', 2),
               'Number': ('get_number', 1), 'Duration': ('get_duration', 1), 'Percent': ('get_percent', 1), 'Month': ('get_month', 1)}
ITEM_GETTER = {'TimeItem': ('get_time', 2), 'DateItem': ('get_date', 2), 'DateTimeItem': ('get_date_time', 2),
               'NumberItem': ('get_number', 1), 'DurationItem': ('get_duration', 1), 'PercentItem': ('get_percent', 1)}
_TOK = re.compile(r'^BTreeMap::get\(fields, "([^"]+)"\) as Some\.0\.token_type as Some\.0$')
_VAR = re.compile(r'^BTreeMap::get\(fields, "([^"]+)"\) as Some\.0\.token_type as Some\.0 as Variable\.0\.data as Item\.0$')


def _find_get(e):
    for x in walk(e):
        if x[0] == 'call' and re.search(r'BTreeMap::<.*>::get$|BTreeMap<.*>::get$|::get$', x[1]) and len(x[2]) == 2:
            return x
    return None


def _getter_node(getter, arity, get_call, idx):
    call = ('call', 'tokinizer::tools::%s' % getter, [get_call[2][1], get_call[2][0]], None)
    payload = ('field', ('downcast', call, 'Some'), '0', 'core::option::Option.0')
    if arity == 1:
        return payload if idx == 0 else None
    return ('field', payload, '#%d' % idx, 'tuple.%d' % idx)


def canon_field_reads(e):
    from .facts import rebuild

    def f(n):
        if n[0] == 'phi':
            rs = []
            for a in n[2]:
                if render(a) not in [render(x) for x in rs]:
                    rs.append(a)
            if len(rs) == 1 and len(n[2]) > 1:
                return rs[0]
            return n
        if n[0] != 'field':
            return n
        idx = str(n[2]).lstrip('#')
        base = n[1]
        while base[0] in ('ref', 'deref'):
            base = base[1]
        # (phi of tuples).i -> phi of the i-th components
        if base[0] == 'phi' and idx.isdigit() and base[2] and all(strip(a)[0] == 'aggr' and strip(a)[1] == 'tuple' and len(strip(a)[2]) > int(idx) for a in base[2]):
            comps = [strip(a)[2][int(idx)] for a in base[2]]
            return f(('phi', base[1], comps) + tuple(base[3:]))
        if base[0] == 'aggr' and base[1] == 'tuple' and idx.isdigit() and len(base[2]) > int(idx):
            return base[2][int(idx)]
        if not idx.isdigit():
            return n
        # the payload of the token itself: `fields.get("f").token_type as Kind.i`
        if base[0] == 'downcast' and base[2] in KIND_GETTER:
            m = _TOK.match(render(base[1]))
            g = _find_get(base[1]) if m else None
            if g is not None:
                getter, arity = KIND_GETTER[base[2]]
                r = _getter_node(getter, arity, g, int(idx))
                if r is not None:
                    return r
        # the item a variable holds: `downcast_ref::<KindItem>(as_any(.. as Variable.0.data as Item.0)) as Some.0.i`
        if base[0] == 'field' and str(base[2]).lstrip('#') == '0' and base[1][0] == 'downcast' and base[1][2] == 'Some':
            c = base[1][1]
            while c[0] in ('ref', 'deref'):
                c = c[1]
            if c[0] == 'call' and re.search(r'::downcast_ref$', c[1]) and c[2] and isinstance(c[3], dict):
                gen = ((c[3].get('callee') or {}).get('gen') or [])
                item = [x.rsplit('::', 1)[-1] for x in gen if x.rsplit('::', 1)[-1] in ITEM_GETTER]
                inner = c[2][0]
                ic = strip(inner)
                if ic[0] == 'call' and re.search(r'::as_any$', ic[1]) and ic[2]:
                    inner = ic[2][0]
                m = _VAR.match(render(inner))
                g = _find_get(inner) if m else None
                if item and g is not None:
                    getter, arity = ITEM_GETTER[item[0]]
                    r = _getter_node(getter, arity, g, int(idx))
                    if r is not None:
                        return r
        return n
    return rebuild(e, f)


# ---------------------------------------------------------------------------------------------
# Literal readers are stateless between captures: what one literal denotes never depends on the literal read before it.
READERS = [(r'regex_tokinizer::number::number_regex_parser$', 'Number'), (r'regex_tokinizer::money::money_regex_parser$', 'Money'),
           (r'regex_tokinizer::percent::percent_regex_parser$', 'Percent'), (r'regex_tokinizer::time::time_regex_parser$', 'Time')]


def reader_stateless(ctx, rid, only=None):
    """the payload of a literal token (its value, its currency, its instant and zone) and the decisions that select it are
    terms of the current capture only: the gated use-def term contains no loop-carried variable. A variable hoisted out of the
    capture loop ("computed once") that an arm assigns makes the second literal of a line inherit from the first (`2k + 3`)."""
    ctx.rule(rid, 'literal readers carry no state from one capture to the next', floor=1)
    for rx, kind in READERS:
        if only and kind not in only:
            continue
        b = ctx.facts.one(rx)
        ctx.fn(b)
        aggs = [s_ for i in b.normal_blocks for s_ in b.blocks[i]['stmts'] if s_['k'] == 'assign' and s_['rv'] == 'aggr' and s_['adt'] == 'types::TokenType::' + kind]
        if not aggs:
            raise AnchorLost('%s: no TokenType::%s construction found' % (fn_key(b.path), kind))
        for s_ in aggs:
            carried = set()
            for o in s_['ops']:
                e = b.expr(o)
                for x in walk(e):
                    if x[0] == 'loop':
                        carried.add(render(x))
                try:
                    for _a, conds in alternatives(b, e):
                        for d, _v in conds:
                            for x in walk(d):
                                if x[0] == 'loop':
                                    carried.add(render(x))
                except Exception:
                    pass
            if carried:
                ctx.finding(rid, '%s/carried-state/%s' % (fn_key(b.path), '+'.join(sorted(carried))[:60]),
                            'the %s token built by %s depends on %s, a variable that keeps its value from the previous capture of the line: a literal can inherit from the literal read before it' % (kind, fn_key(b.path), ', '.join(sorted(carried))), site=s_['loc'])
            else:
                ctx.ok(rid, '%s: the %s token is a term of the current capture only' % (fn_key(b.path), kind), 'use-def', site=s_['loc'])


def variant_consistent(e):
    """False when the expression projects a variant out of a value built as *another* variant (`(Moment::Date{..} as Time).0`):
    such an alternative of a merged enum value is not the one the projection is evaluated on"""
    for x in walk(e):
        if x[0] == 'downcast':
            base = strip(x[1])
            if base[0] == 'aggr' and '::' in str(base[1]):
                if str(base[1]).rsplit('::', 1)[1] != str(x[2]) and str(base[1]).rsplit('::', 1)[1] not in ('tuple',):
                    return False
    return True


def value_alternatives(b, e, conds=()):
    """the feasible alternatives of a value that may be a projection of a merged enum value (a `match` on a value read through a
    helper that returns an enum of the cases): [(expr, conds)] with variant-inconsistent alternatives dropped and projections of
    the surviving aggregate resolved"""
    from .facts import simplify_field
    out = []
    for a, c in alternatives(b, e, _conds=tuple(conds)):
        if not variant_consistent(a):
            continue
        out.append((a, c))
    return out


def resolve_variant_projections(b, e):
    """rewrite every `(merged enum value as V).i` inside e - also inside call arguments - to the one alternative that is built as
    variant V (when there is exactly one)"""
    from .facts import rebuild

    def f(n):
        if n[0] == 'field' and n[1][0] == 'downcast':
            base = strip(n[1][1])
            inner_phi = base[0] == 'phi' or (base[0] == 'field' and strip(base[1])[0] == 'downcast' and strip(strip(base[1])[1])[0] == 'phi')
            if inner_phi:
                try:
                    alts = [a for a, _c in alternatives(b, n) if variant_consistent(a)]
                except Exception:
                    return n
                rs = []
                for a in alts:
                    if render(a) not in [render(x) for x in rs]:
                        rs.append(a)
                if len(rs) == 1 and rs[0] is not n:
                    return rs[0]
        return n
    return rebuild(e, f)
