"""Build the fact base for /repo's current working tree (E0 run) - never from a cache of another tree."""
import fcntl
import glob
import hashlib
import os
import shutil
import subprocess
import sys
import time

VERIF = os.path.dirname(os.path.dirname(os.path.abspath(__file__)))
REPO = os.environ.get('SCV_REPO', '/repo')
WORK = os.path.join(VERIF, '.work')
DRIVER = os.path.join(WORK, 'driver-target', 'debug', 'scv-driver')
DATATOOL = os.path.join(WORK, 'datatool-target', 'release', 'scv-datatool')

CONFIGS = {
    # name: (cargo args, description)
    'dev': ([], 'dev profile (overflow-checks, debug-assertions on): the profile the test-suite runs in'),
    'release': (['--release'], 'release profile (overflow-checks off, panic=abort)'),
    'debug-rules': (['--features', 'debug-rules'], 'dev profile with feature debug-rules'),
}


def tree_digest(repo=None):
    repo = repo or REPO
    h = hashlib.sha256()
    files = []
    for root, dirs, fs in os.walk(os.path.join(repo, 'src')):
        dirs.sort()
        for f in sorted(fs):
            files.append(os.path.join(root, f))
    for f in ('Cargo.toml', 'Cargo.lock', 'build.rs'):
        p = os.path.join(repo, f)
        if os.path.exists(p):
            files.append(p)
    for p in files:
        h.update(os.path.relpath(p, repo).encode())
        h.update(b'\0')
        with open(p, 'rb') as fh:
            h.update(fh.read())
        h.update(b'\0')
    return h.hexdigest()[:20], len(files)


def sysroot():
    return subprocess.check_output(['rustc', '+nightly', '--print', 'sysroot'], text=True).strip()


def ensure_tools():
    missing = [p for p in (DRIVER, DATATOOL) if not os.path.exists(p)]
    # a helper older than its source is stale (the fact files are keyed by the driver source digest, the binary is not)
    for tool, src in ((DRIVER, os.path.join(VERIF, 'driver', 'src', 'main.rs')), (DATATOOL, os.path.join(VERIF, 'datatool', 'src', 'main.rs'))):
        if os.path.exists(tool) and os.path.exists(src) and os.path.getmtime(src) > os.path.getmtime(tool):
            missing.append(tool)
    if missing:
        # build on demand (setup.sh does the same); offline
        subprocess.check_call([os.path.join(VERIF, 'setup.sh')], cwd=VERIF)
    for p in (DRIVER, DATATOOL):
        if not os.path.exists(p):
            raise RuntimeError('tool missing after setup: %s' % p)


def driver_digest():
    h = hashlib.sha256()
    with open(os.path.join(VERIF, 'driver', 'src', 'main.rs'), 'rb') as fh:
        h.update(fh.read())
    return h.hexdigest()[:8]


def facts_path(cfg, digest):
    return os.path.join(WORK, 'facts-%s-%s-%s.jsonl' % (cfg, digest, driver_digest()))


def build_facts(cfg='dev', repo=None, quiet=True):
    """returns (path of fact file, digest, seconds spent in the compiler run (0 if fresh file existed))"""
    repo = repo or REPO
    os.makedirs(WORK, exist_ok=True)
    ensure_tools()
    digest, nfiles = tree_digest(repo)
    out = facts_path(cfg, digest)
    lock = open(os.path.join(WORK, 'build-%s.lock' % cfg), 'w')
    fcntl.flock(lock, fcntl.LOCK_EX)
    try:
        if os.path.exists(out) and os.path.getsize(out) > 0:
            return out, digest, 0.0
        t0 = time.time()
        target = os.path.join(WORK, 't-%s' % cfg)
        prof = 'release' if cfg == 'release' else 'debug'
        # cargo's freshness cache would skip the wrapper: drop the crate's fingerprints
        for fp in glob.glob(os.path.join(target, prof, '.fingerprint', 'smartcalc-*')):
            shutil.rmtree(fp, ignore_errors=True)
        env = dict(os.environ)
        env['LD_LIBRARY_PATH'] = os.path.join(sysroot(), 'lib') + ':' + env.get('LD_LIBRARY_PATH', '')
        env['RUSTFLAGS'] = '-Zmir-opt-level=0 -Awarnings'
        env['RUSTC_WORKSPACE_WRAPPER'] = DRIVER
        env['SCV_OUT'] = out
        env['SCV_CRATE'] = 'smartcalc'
        env['CARGO_TARGET_DIR'] = target
        env['CARGO_NET_OFFLINE'] = 'true'
        env.pop('RUSTC_WRAPPER', None)
        cmd = ['cargo', '+nightly', 'check', '--lib', '--offline'] + CONFIGS[cfg][0]
        p = subprocess.run(cmd, cwd=repo, env=env, stdout=subprocess.PIPE, stderr=subprocess.STDOUT, text=True)
        if p.returncode != 0 or not os.path.exists(out):
            sys.stderr.write(p.stdout[-6000:])
            raise RuntimeError('E0: `%s` failed in %s (exit %s); the tree does not compile or the driver broke' % (' '.join(cmd), repo, p.returncode))
        # keep the work dir small: drop fact files of other digests for this cfg
        for old in glob.glob(os.path.join(WORK, 'facts-%s-*.jsonl' % cfg)):
            if old != out and time.time() - os.path.getmtime(old) > 900:
                try:
                    os.remove(old)
                except OSError:
                    pass
        return out, digest, time.time() - t0
    finally:
        fcntl.flock(lock, fcntl.LOCK_UN)
        lock.close()
