"""Models of the std string / iterator API for the E6c machine (scv/absint.py): strings are lists of *symbols*.

A rendered number is a sequence of opaque digit symbols ('i1', 'i2', .. for the integer part, '.', 'f1', .. for the fraction);
separators are the symbols 'T' and 'D'. Code that assembles its output from such strings by position (push, push_str, nth,
get, skip, extend, ranges) depends on the digits only through their *positions*: for a given pair of lengths the assembled
sequence is the same for every number with those lengths. The models below are the identities of the std API on sequences;
anything else stays an opaque symbol and a branch on it raises Unknown in the machine.

Values: ('str', [symbols])  an owned or borrowed string;  ('it', [items], kind)  an iterator over remaining items;
('vec', [items])  a vector;  a Range is the machine's struct value {'start', 'end'} of core::ops::Range.
"""
import re

from .absint import Unknown, is_ptr, is_sym, sym, Tagged, tags_of


def is_str(v):
    return isinstance(v, tuple) and len(v) == 2 and v[0] == 'str'


def seq_class(items):
    """what a sequence of symbols is a rendering of: the leading letters of its digit symbols ('t1' -> 't', 'i3' / 'f2' / '.' -> 'i')"""
    out = set()
    for x in items:
        if isinstance(x, tuple) and x and x[0] == 'tuple':
            x = x[1][-1]
        if isinstance(x, str) and len(x) >= 2 and x[1:].isdigit():
            out.add('i' if x[0] in 'if' else x[0])
    return frozenset(out)


def note_position(m, items, pos, how, t):
    """a position `pos` is taken in the sequence `items`: remember it when it was derived from the length of another sequence"""
    foreign = tags_of(pos) - seq_class(items)
    if foreign and seq_class(items):
        m.events.append((how, tuple(sorted(seq_class(items))), tuple(sorted(foreign)), t.get('loc')))


def is_it(v):
    return isinstance(v, tuple) and len(v) == 3 and v[0] == 'it'


def is_vec(v):
    return isinstance(v, tuple) and len(v) == 2 and v[0] == 'vec'


def some(m, v):
    return m.make_adt('core::option::Option::Some', [v], [])


def none(m):
    return m.make_adt('core::option::Option::None', [], [])


def as_items(m, v):
    """the remaining items of an iterable value, or None"""
    v = m.deref_value(v)
    if is_it(v):
        return list(v[1])
    if is_vec(v):
        return list(v[1])
    if is_str(v):
        return None
    if isinstance(v, dict) and v.get('__adt__', '').endswith('ops::Range') and isinstance(v.get('start'), int) and isinstance(v.get('end'), int):
        tg = tags_of(v['start']) | tags_of(v['end'])
        return [Tagged(i, tg) if tg else i for i in range(v['start'], v['end'])]
    if isinstance(v, dict) and v.get('__adt__', '').endswith('ops::RangeInclusive'):
        return None
    return None


def write_back(m, arg, new):
    if is_ptr(arg):
        # the pointer may point at a local that holds another pointer (&mut &mut I): follow to the value cell
        cur = arg
        for _ in range(6):
            inner = m.read(cur[1], cur[2])
            if is_ptr(inner):
                cur = inner
            else:
                break
        m.write(cur[1], cur[2], new)
        return True
    return False


def lit(v):
    """a literal text (Python str of a &str constant) as a symbolic string: one symbol per character"""
    if isinstance(v, str):
        return ('str', list(v))
    return v


def fmt_model(m, path, args, t):
    """format_args!: Argument::new_display(&x) keeps x; Arguments::new(template, args) is the list of literal pieces and
    displayed values in template order; write_fmt appends it to the string written to; fmt::format makes it a String.
    Only `{}` of strings and integers is modelled (an integer is the one symbol 'n'); anything else is Unknown."""
    a0 = m.deref_value(args[0]) if args else None
    if re.search(r'fmt::rt::Argument::<.*>::new_display$', path) and args:
        return ('fmtarg', a0)
    if re.search(r'fmt::rt::Argument::<.*>::new_\w+$', path) and args:
        return ('fmtarg?', path.rsplit('::', 1)[-1])
    if re.search(r'fmt::Arguments::<.*>::(new|new_v1|new_const|from_str)$', path) and args:
        from .data import decode_fmt_template
        from .facts import AnchorLost
        tpl = a0
        if isinstance(tpl, str):
            return ('fmt', list(tpl))
        if isinstance(tpl, tuple) and tpl and tpl[0] == 'tuple' and all(isinstance(x, str) for x in tpl[1]):
            pieces = []                                   # the older lowering: an array of literal pieces, arguments in between
            for i, x in enumerate(tpl[1]):
                if i:
                    pieces.append(None)
                pieces.append(x)
        else:
            if not (is_sym(tpl) and tpl[1].startswith('const:')):
                return ('fmt?', 'format template %r' % (tpl,))
            if len(tpl[1]) >= 66:
                return ('fmt?', 'format template too long to decode')
            try:
                pieces = decode_fmt_template(tpl[1][6:])
            except AnchorLost as ex:
                return ('fmt?', str(ex))
        vals = m.deref_value(args[1]) if len(args) > 1 else ('tuple', [])
        vals = list(vals[1]) if isinstance(vals, tuple) and vals and vals[0] == 'tuple' else []
        out = []
        it = iter(vals)
        for pc in pieces:
            if pc is None:
                v = next(it, None)
                v = m.deref_value(v[1]) if isinstance(v, tuple) and v and v[0] == 'fmtarg' else None
                if isinstance(v, int) and not isinstance(v, bool):
                    out.append('n')
                elif isinstance(v, str):
                    out += list(v)
                elif is_str(v):
                    out += list(v[1])
                else:
                    return ('fmt?', 'format argument %r' % (v,))          # a rendering the model cannot spell: opaque until used
            elif pc:
                out += list(pc)
        return ('fmt', out)
    if re.search(r'fmt::Write>?::write_fmt$', path) and len(args) == 2:
        f = m.deref_value(args[1])
        if isinstance(f, tuple) and f and f[0] == 'fmt?':
            raise Unknown(f[1])
        cur = lit(a0)
        if isinstance(f, tuple) and f and f[0] == 'fmt' and is_str(cur) and is_ptr(args[0]):
            write_back(m, args[0], ('str', list(cur[1]) + list(f[1])))
            return m.make_adt('core::result::Result::Ok', [('tuple', [])], [])
    if re.search(r'alloc::fmt::format$|fmt::format::format_inner$', path) and isinstance(a0, tuple) and a0 and a0[0] == 'fmt':
        return ('str', list(a0[1]))
    if re.search(r'fmt::Arguments::<.*>::as_(statically_known_)?str$', path) and isinstance(a0, tuple) and a0 and a0[0] == 'fmt':
        return none(m)
    return NotImplemented


def std_model(m, path, args, t):
    """returns a value, or NotImplemented"""
    a0 = m.deref_value(args[0]) if args else None
    if 'fmt' in path:
        r = fmt_model(m, path, args, t)
        if r is not NotImplemented:
            return r
    if re.search(r'string::String::(push|push_str)$', path) and isinstance(a0, str):
        a0 = lit(a0)
    # ---------------------------------------------------------------- strings
    if re.search(r'string::String::new$|String::with_capacity$', path):
        return ('str', [])
    if re.search(r'string::String::push$', path) and len(args) == 2 and is_str(a0):
        ch = m.deref_value(args[1])
        write_back(m, args[0], ('str', a0[1] + [ch]))
        return sym('unit')
    if re.search(r'string::String::push_str$', path) and len(args) == 2 and is_str(a0):
        other = lit(m.deref_value(args[1]))
        if not is_str(other):
            raise Unknown('push_str of %r' % (other,))
        write_back(m, args[0], ('str', a0[1] + other[1]))
        return sym('unit')
    if re.search(r'(string::String|str::<impl str>)::len$', path) and is_str(a0):
        return Tagged(len(a0[1]), seq_class(a0[1]))
    if re.search(r'(string::String|str::<impl str>)::is_empty$', path) and is_str(a0):
        return int(not a0[1])
    if re.search(r'str::<impl str>::(find|rfind)$', path) and len(args) == 2 and is_str(a0):
        pat = m.deref_value(args[1])
        if isinstance(pat, str) and len(pat) == 1:
            idx = [i for i, x in enumerate(a0[1]) if x == pat]
            if not idx:
                return none(m)
            i = idx[0] if path.endswith('::find') else idx[-1]
            return some(m, Tagged(i, seq_class(a0[1])))           # a position measured on this very sequence
        raise Unknown('find(%r)' % (pat,))
    if re.search(r'str::<impl str>::(contains|starts_with|ends_with)$', path) and len(args) == 2 and is_str(a0):
        pat = m.deref_value(args[1])
        if isinstance(pat, str) and len(pat) == 1:
            if path.endswith('contains'):
                return int(pat in a0[1])
            if path.endswith('starts_with'):
                return int(bool(a0[1]) and a0[1][0] == pat)
            return int(bool(a0[1]) and a0[1][-1] == pat)
    if re.search(r'str::<impl str>::chars$', path) and is_str(a0):
        return ('it', list(a0[1]), 'chars')
    if re.search(r'str::(iter::)?Chars::<.*>::as_str$|str::(iter::)?Chars<.*>::as_str$', path) and is_it(a0) and a0[2] == 'chars':
        return ('str', list(a0[1]))                     # what the iterator has not handed out yet
    if re.search(r'str::<impl str>::char_indices$', path) and is_str(a0):
        return ('it', [('tuple', [i, c]) for i, c in enumerate(a0[1])], 'char_indices')
    if re.search(r'str::<impl str>::trim(_end|_start)?$|String::as_str$|Deref>::deref$', path) and is_str(a0) and not re.search(r'trim', path):
        return args[0] if is_ptr(args[0]) else a0
    if re.search(r'ops::Index<.*>>::index$|str::traits::<impl .*Index.*>::index$', path) and len(args) == 2 and (is_str(a0) or is_vec(a0)):
        r = m.deref_value(args[1])
        seq = a0[1]
        if is_sym(r) and 'RangeFull' in r[1]:
            return a0                                  # `s[..]`
        if isinstance(r, dict):
            adt = r.get('__adt__', '')
            lo, hi = 0, len(seq)
            if adt.endswith('RangeFull'):
                pass
            elif adt.endswith('RangeFrom'):
                lo = r['start']
            elif adt.endswith('RangeTo'):
                hi = r['end']
            elif adt.endswith('ops::Range'):
                lo, hi = r['start'], r['end']
            else:
                raise Unknown('index with %s' % adt)
            if not (isinstance(lo, int) and isinstance(hi, int)) or lo > hi or hi > len(seq):
                raise Unknown('slice %r..%r of a sequence of %d' % (lo, hi, len(seq)))
            note_position(m, seq, lo, 'slice', t)
            note_position(m, seq, hi, 'slice', t)
            return (a0[0], seq[lo:hi])
    # ---------------------------------------------------------------- iterators
    if re.search(r'IntoIterator>::into_iter$|slice::<impl \[T\]>::iter$|Vec::<.*>::iter$', path) and args:
        items = as_items(m, args[0])
        if items is not None and not (isinstance(a0, dict)):
            return ('it', items, 'iter')
        return NotImplemented
    if re.search(r'Iterator(?:<.*>)?>?::next$|::next$', path) and args:
        if is_it(a0):
            # taking "the next" item inside a loop whose trip count is the length of another sequence is a position, too
            ctrl = getattr(m, 'ctrl_tags', frozenset())
            if ctrl:
                note_position(m, a0[1], Tagged(0, ctrl), 'next', t)
            if not a0[1]:
                if a0[2] == 'ints':
                    m.ctrl_tags = frozenset()
                return none(m)
            first = a0[1][0]
            kind = a0[2]
            if isinstance(first, int) and not isinstance(first, bool):
                # an iterator over indices (a reversed / skipped range): it drives a loop like the range itself
                m.ctrl_tags = tags_of(first)
                kind = 'ints'
            write_back(m, args[0], ('it', a0[1][1:], kind))
            return some(m, first)
        if isinstance(a0, dict) and a0.get('__adt__', '').endswith('ops::Range') and isinstance(a0.get('start'), int) and isinstance(a0.get('end'), int):
            if a0['start'] >= a0['end']:
                m.ctrl_tags = frozenset()
                return none(m)
            m.ctrl_tags = tags_of(a0['end']) | tags_of(a0['start'])
            new = dict(a0)
            new['start'] = Tagged(a0['start'] + 1, tags_of(a0['start']))
            new['0'] = new['start']
            write_back(m, args[0], new)
            # an index of `a..b` is bounded by b: it carries what b was measured on
            return some(m, Tagged(a0['start'], tags_of(a0['start']) | tags_of(a0['end'])))
        return NotImplemented
    if re.search(r'Iterator>?::nth$|::nth$', path) and len(args) == 2 and is_it(a0):
        n = m.deref_value(args[1])
        if not isinstance(n, int):
            raise Unknown('nth(%r)' % (n,))
        note_position(m, a0[1], n, 'nth', t)
        if n >= len(a0[1]):
            write_back(m, args[0], ('it', [], a0[2]))
            return none(m)
        write_back(m, args[0], ('it', a0[1][n + 1:], a0[2]))
        return some(m, a0[1][n])
    if re.search(r'iter::(sources::repeat::)?repeat$', path) and len(args) == 1:
        return ('rep', m.deref_value(args[0]), None)
    if re.search(r'Iterator>?::take$|::take$', path) and len(args) == 2 and isinstance(a0, tuple) and len(a0) == 3 and a0[0] == 'rep':
        n = m.deref_value(args[1])
        if isinstance(n, int):
            return ('it', [a0[1]] * n, 'repeat-take')
    if re.search(r'Extend<.*>>::extend$|Vec::<.*>::extend$|::extend$', path) and len(args) == 2 and is_vec(a0):
        items = as_items(m, args[1])
        if items is None:
            raise Unknown('extend with %r' % (m.deref_value(args[1]),))
        write_back(m, args[0], ('vec', a0[1] + [m.deref_value(x) for x in items]))
        return sym('unit')
    if re.search(r'Iterator>?::skip$|::skip$', path) and len(args) == 2:
        items = as_items(m, args[0])
        n = m.deref_value(args[1])
        if items is not None and isinstance(n, int):
            note_position(m, items, n, 'skip', t)
            return ('it', items[n:], 'skip')
    if re.search(r'Iterator>?::take$|::take$', path) and len(args) == 2:
        items = as_items(m, args[0])
        n = m.deref_value(args[1])
        if items is not None and isinstance(n, int):
            note_position(m, items, n, 'take', t)
            return ('it', items[:n], 'take')
    if re.search(r'Iterator>?::rev$|::rev$', path) and args:
        items = as_items(m, args[0])
        if items is not None:
            return ('it', list(reversed(items)), 'rev')
    if re.search(r'Iterator>?::enumerate$|::enumerate$', path) and args:
        items = as_items(m, args[0])
        if items is not None:
            return ('it', [('tuple', [i, x]) for i, x in enumerate(items)], 'enumerate')
    if re.search(r'Iterator>?::(cloned|copied|peekable|by_ref|fuse)$', path) and args:
        items = as_items(m, args[0])
        if items is not None:
            return ('it', items, 'same')
    if re.search(r'Iterator>?::count$', path) and args:
        items = as_items(m, args[0])
        if items is not None:
            return len(items)
    if re.search(r'Iterator>?::collect$|::collect$', path) and args:
        items = as_items(m, args[0])
        if items is not None:
            dest = str(m.b.locals.get(t['dest']['local'], ''))
            if re.match(r'^(alloc::collections::(btree::map::)?)?BTreeMap<', dest):
                out = {}
                for it_ in items:
                    it_ = m.deref_value(it_)
                    if not (isinstance(it_, tuple) and it_ and it_[0] == 'tuple' and len(it_[1]) == 2):
                        raise Unknown('collect into a map from %r' % (it_,))
                    k_ = m.deref_value(it_[1][0])
                    k_ = ''.join(str(c) for c in k_[1]) if is_str(k_) else k_
                    if not isinstance(k_, str):
                        raise Unknown('collect into a map with the key %r' % (k_,))
                    out[k_] = it_[1][1]
                return ('map', out)
            if 'String' in dest.split('<')[0] or dest.endswith('String'):
                return ('str', items)
            return ('vec', items)
    if re.search(r'Extend<.*>>::extend$|::extend$', path) and len(args) == 2 and is_str(a0):
        items = as_items(m, args[1])
        if items is None:
            raise Unknown('extend with %r' % (m.deref_value(args[1]),))
        write_back(m, args[0], ('str', a0[1] + [m.deref_value(x) for x in items]))
        return sym('unit')
    if re.search(r'string::String::extend|String as core::iter::Extend', path) and len(args) == 2 and is_str(a0):
        items = as_items(m, args[1])
        if items is not None:
            write_back(m, args[0], ('str', a0[1] + [m.deref_value(x) for x in items]))
            return sym('unit')
    # ---------------------------------------------------------------- closures handed to adaptors
    if re.search(r'Iterator>?::map$|::map$', path) and len(args) == 2 and not re.search(r'Option|Result', path):
        items = as_items(m, args[0])
        if items is not None:
            out = []
            for x in items:
                r = m.apply_fn(args[1], [x])
                if r is None:
                    raise Unknown('map with an unknown function value')
                out.append(r)
            return ('it', out, 'map')
    mm = re.search(r'Iterator>?::(find|position|any|all|find_map|filter|filter_map)$', path)
    if mm and len(args) == 2 and not re.search(r'str::<impl str>', path):
        items = as_items(m, args[0])
        if items is not None:
            how = mm.group(1)

            def truth(v):
                v = m.deref_value(v)
                if isinstance(v, int) and v in (0, 1):
                    return bool(v)
                raise Unknown('%s: the predicate gives %r' % (how, v))

            def call(x):
                r = m.apply_fn(args[1], [x])
                if r is None:
                    raise Unknown('%s with an unknown function value' % how)
                return r
            if how in ('filter', 'filter_map'):
                out = []
                for x in items:
                    r = call(x)
                    if how == 'filter':
                        if truth(r):
                            out.append(x)
                    else:
                        rv = m.deref_value(r)
                        if not (isinstance(rv, dict) and '__discr__' in rv):
                            raise Unknown('filter_map step gives %r' % (rv,))
                        if rv['__discr__'] == 1:
                            out.append(rv['0'])
                return ('it', out, how)
            for i, x in enumerate(items):
                r = call(x)
                if how == 'find_map':
                    rv = m.deref_value(r)
                    if not (isinstance(rv, dict) and '__discr__' in rv):
                        raise Unknown('find_map step gives %r' % (rv,))
                    if rv['__discr__'] == 1:
                        write_back(m, args[0], ('it', items[i + 1:], 'rest'))
                        return rv
                    continue
                t_ = truth(r)
                if how == 'find' and t_:
                    write_back(m, args[0], ('it', items[i + 1:], 'rest'))
                    return some(m, x)
                if how == 'position' and t_:
                    write_back(m, args[0], ('it', items[i + 1:], 'rest'))
                    return some(m, i)
                if how == 'any' and t_:
                    return 1
                if how == 'all' and not t_:
                    return 0
            if how in ('find', 'position', 'find_map'):
                write_back(m, args[0], ('it', [], 'rest'))
                return none(m)
            return 0 if how == 'any' else 1
    mm = re.search(r'Iterator>?::(try_fold|fold)$', path)
    if mm and len(args) == 3:
        items = as_items(m, args[0])
        if items is not None:
            acc = args[1]
            for x in items:
                r = m.apply_fn(args[2], [acc, x])
                if r is None:
                    raise Unknown('%s with an unknown function value' % mm.group(1))
                if mm.group(1) == 'fold':
                    acc = r
                    continue
                rv = m.deref_value(r)
                if not (isinstance(rv, dict) and '__discr__' in rv and str(rv.get('__adt__', '')).endswith(('Option', 'Result'))):
                    raise Unknown('try_fold step gives %r' % (rv,))
                good = 1 if rv['__adt__'].endswith('Option') else 0
                if rv['__discr__'] != good:
                    if is_ptr(args[0]) and is_it(m.deref_value(args[0])):
                        pass
                    return rv
                acc = rv['0']
            if mm.group(1) == 'fold':
                return acc
            dest = str(m.b.locals.get(t['dest']['local'], ''))
            if 'Result<' in dest.split('Option<')[0]:
                return m.make_adt('core::result::Result::Ok', [acc], [])
            return some(m, acc)
    if re.search(r'Option::<.*>::map_or$', path) and len(args) == 3:
        o = m.deref_value(args[0])
        if isinstance(o, dict) and '__discr__' in o:
            if o['__discr__'] == 0:
                return args[1]
            r = m.apply_fn(args[2], [o['0']])
            if r is None:
                raise Unknown('map_or with an unknown function value')
            return r
    if re.search(r'Option::<.*>::map$', path) and len(args) == 2:
        o = m.deref_value(args[0])
        if isinstance(o, dict) and '__discr__' in o:
            if o['__discr__'] == 0:
                return none(m)
            r = m.apply_fn(args[1], [o['0']])
            if r is None:
                raise Unknown('map with an unknown function value')
            return some(m, r)
    if re.search(r'Option::<.*>::unwrap_or$', path) and len(args) == 2:
        o = m.deref_value(args[0])
        if isinstance(o, dict) and '__discr__' in o:
            return o['0'] if o['__discr__'] == 1 else args[1]
    # ---------------------------------------------------------------- vectors / slices
    if re.search(r'vec::Vec::<.*>::(new|with_capacity)$|Vec::<T>::(new|with_capacity)$', path):
        return ('vec', [])
    if re.search(r'Vec::<.*>::push$', path) and len(args) == 2 and is_vec(a0):
        write_back(m, args[0], ('vec', a0[1] + [m.deref_value(args[1]) if not isinstance(m.deref_value(args[1]), dict) else m.deref_value(args[1])]))
        return sym('unit')
    if re.search(r'slice::<impl \[T\]>::contains$|Vec::<.*>::contains$', path) and len(args) == 2:
        seq = a0[1] if (is_vec(a0) or (isinstance(a0, tuple) and a0 and a0[0] == 'tuple')) else None
        x = m.deref_value(args[1])
        if seq is not None and isinstance(x, (int, str)) and all(isinstance(y, (int, str)) for y in seq):
            return int(x in seq)
    if re.search(r'Vec::<.*>::remove$', path) and len(args) == 2 and is_vec(a0):
        i = m.deref_value(args[1])
        if not isinstance(i, int) or not 0 <= i < len(a0[1]):
            raise Unknown('remove(%r) from a vector of %d' % (i, len(a0[1])))
        write_back(m, args[0], ('vec', a0[1][:i] + a0[1][i + 1:]))
        return a0[1][i]
    if re.search(r'Vec::<.*>::insert$', path) and len(args) == 3 and is_vec(a0):
        i = m.deref_value(args[1])
        if not isinstance(i, int) or not 0 <= i <= len(a0[1]):
            raise Unknown('insert at %r into a vector of %d' % (i, len(a0[1])))
        write_back(m, args[0], ('vec', a0[1][:i] + [m.deref_value(args[2])] + a0[1][i:]))
        return sym('unit')
    if re.search(r'Vec::<.*>::retain$', path) and len(args) == 2 and is_vec(a0):
        keep = []
        for n_, x in enumerate(a0[1]):
            m.env['retain%d_%d' % (m.shared['frames'], n_)] = x
            r = m.apply_fn(args[1], [('ptr', 'retain%d_%d' % (m.shared['frames'], n_), ())])
            if r not in (0, 1):
                raise Unknown('retain with a predicate that answers %r' % (r,))
            if r:
                keep.append(x)
        write_back(m, args[0], ('vec', keep))
        return sym('unit')
    if re.search(r'Iterator>?::position$|::position$', path) and len(args) == 2:
        items = as_items(m, args[0])
        if items is not None:
            for n_, x in enumerate(items):
                r = m.apply_fn(args[1], [x])
                if r not in (0, 1):
                    raise Unknown('position with a predicate that answers %r' % (r,))
                if r:
                    return some(m, n_)
            return none(m)
    if re.search(r'Iterator>?::(any|all)$', path) and len(args) == 2:
        items = as_items(m, args[0])
        if items is not None:
            want_any = path.endswith('any')
            for x in items:
                r = m.apply_fn(args[1], [x])
                if r not in (0, 1):
                    raise Unknown('%s with a predicate that answers %r' % ('any' if want_any else 'all', r))
                if want_any and r:
                    return 1
                if not want_any and not r:
                    return 0
            return 0 if want_any else 1
    if re.search(r'Iterator>?::(find|filter)$', path) and len(args) == 2:
        items = as_items(m, args[0])
        if items is not None:
            out = []
            for n_, x in enumerate(items):
                m.env['find%d_%d' % (m.shared['frames'], n_)] = x
                r = m.apply_fn(args[1], [('ptr', 'find%d_%d' % (m.shared['frames'], n_), ())])
                if r not in (0, 1):
                    raise Unknown('find/filter with a predicate that answers %r' % (r,))
                if r:
                    if path.endswith('find'):
                        return some(m, x)
                    out.append(x)
            return none(m) if path.endswith('find') else ('it', out, 'filter')
    if re.search(r'(Vec::<.*>|slice::<impl \[T\]>)::last$', path) and is_vec(a0):
        return some(m, a0[1][-1]) if a0[1] else none(m)
    if re.search(r'(Vec::<.*>|slice::<impl \[T\]>)::first$', path) and is_vec(a0):
        return some(m, a0[1][0]) if a0[1] else none(m)
    if re.search(r'(Vec::<.*>|slice::<impl \[T\]>)::is_empty$', path) and is_vec(a0):
        return int(not a0[1])
    if re.search(r'slice::<impl \[T\]>::binary_search$', path) and len(args) == 2 and is_vec(a0):
        x = m.deref_value(args[1])
        if isinstance(x, int) and all(isinstance(y, int) for y in a0[1]):
            import bisect
            i = bisect.bisect_left(a0[1], x)
            if i < len(a0[1]) and a0[1][i] == x:
                return m.make_adt('core::result::Result::Ok', [i], [])
            return m.make_adt('core::result::Result::Err', [i], [])
    if re.search(r'(Vec::<.*>|slice::<impl \[T\]>)::len$', path) and is_vec(a0):
        return Tagged(len(a0[1]), seq_class(a0[1]))
    if re.search(r'(Vec::<.*>|slice::<impl \[T\]>)::get$', path) and len(args) == 2 and is_vec(a0):
        i = m.deref_value(args[1])
        if not isinstance(i, int):
            raise Unknown('get(%r)' % (i,))
        note_position(m, a0[1], i, 'get', t)
        return some(m, a0[1][i]) if 0 <= i < len(a0[1]) else none(m)
    if re.search(r'ops::Index<.*>>::index$', path) and len(args) == 2 and is_vec(a0):
        i = m.deref_value(args[1])
        if isinstance(i, int):
            if not 0 <= i < len(a0[1]):
                raise Unknown('index %d out of %d' % (i, len(a0[1])))
            note_position(m, a0[1], i, 'index', t)
            return a0[1][i]
    if re.search(r'Deref>::deref$|AsRef<.*>>::as_ref$|Vec::<.*>::as_slice$', path) and is_vec(a0):
        return args[0] if is_ptr(args[0]) else a0
    if re.search(r'Option::<.*>::is_some$', path):
        return NotImplemented
    return NotImplemented
