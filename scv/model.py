"""Repository-specific model extraction shared by several properties: the registries and tables that
the code itself declares (rule-name -> function, parser order, type-name tables, getter accept sets,
date patterns). Every extractor reads the current fact base and fails closed (AnchorLost)."""
import re

from .facts import AnchorLost, render, strip, walk, alternatives, cond_str, resolve_conds


def cached(fn):
    def w(ctx):
        c = ctx.__dict__.setdefault('_model_cache', {})
        if fn.__name__ not in c:
            c[fn.__name__] = fn(ctx)
        return c[fn.__name__]
    w.__name__ = fn.__name__
    w.__doc__ = fn.__doc__
    return w


def const_str(e):
    e = strip(e)
    if e[0] == 'const' and isinstance(e[2], str):
        return e[2]
    return None


@cached
def rule_functions(ctx):
    """rule name -> function path, from the initialiser of RULE_FUNCTIONS"""
    b = ctx.facts.one(r'RULE_FUNCTIONS as core::ops::Deref>::deref::__static_ref_initialize$')
    out = {}
    for bid, t in b.calls(r'BTreeMap::<.*>::insert$'):
        k = const_str(b.expr(t['args'][1]))
        v = strip(b.expr(t['args'][2]))
        if k is None or v[0] != 'fnitem':
            out = {}              # inserted in a loop over a constant table: read the table below
            break
        out[k] = v[1]
    if not out:
        # the map is collected from a constant table of (name, function) rows
        for cb in ctx.facts.bodies.values():
            if cb.kind not in ('const', 'static') or cb.loops():
                continue
            r = strip(cb.ret_expr())
            if r[0] != 'aggr' or r[1] != 'array' or not r[2]:
                continue
            rows = []
            for el in r[2]:
                e = strip(el)
                if e[0] == 'aggr' and e[1] == 'tuple' and len(e[2]) == 2 and const_str(e[2][0]) is not None:
                    f = e[2][1]
                    for _ in range(6):
                        if f[0] in ('ref', 'deref'):
                            f = f[1]
                        elif f[0] == 'cast':
                            f = f[3]
                        else:
                            break
                    if f[0] == 'fnitem' and 'rules::' in str(f[1]):
                        rows.append((const_str(e[2][0]), f[1]))
            if len(rows) == len(r[2]) and len(rows) >= 10:
                out = dict(rows)          # the one constant table of (rule name, rule function) rows
                break
    if not out:
        raise AnchorLost('RULE_FUNCTIONS initialiser has no insert calls')
    return out


def _vec_of_tuples(b):
    """order-preserving [(const str, fn path)] from a `vec![(.., f as T), ..]` initialiser"""
    arr = None
    for i in b.normal_blocks:
        for s in b.blocks[i]['stmts']:
            if s['k'] == 'assign' and s['rv'] == 'aggr' and s['adt'] == 'array':
                arr = s
    if arr is None:
        raise AnchorLost('%s: array literal not found' % b.path)
    out = []
    for o in arr['ops']:
        e = strip(b.expr(o))
        if e[0] == 'aggr' and e[1] == 'tuple':
            k = const_str(e[2][0])
            f = strip(e[2][1])
            out.append((k, f[1] if f[0] == 'fnitem' else None))
        elif e[0] == 'fnitem':
            out.append((None, e[1]))
        else:
            raise AnchorLost('%s: array element is neither a tuple nor a function' % b.path)
    return out


def closures_of(ctx, b):
    """closure bodies created by function b: its own, those of helpers that E0b spliced into it, and their closures"""
    owners = {b.path}
    for hp, callers in getattr(ctx.facts, 'splice_report', []):
        if b.path in callers:
            owners.add(hp)
    out = []
    for _ in range(4):
        new = [c for c in ctx.facts.bodies.values() if c.kind == 'closure' and c.rec.get('parent') in owners and c.path not in owners]
        if not new:
            break
        for c in new:
            owners.add(c.path)
            out.append(c)
    return out


def registry_body(ctx, name):
    """the body that builds the registry `name`: the initialiser of a lazy_static!, or the value of a `const` / `static` item of
    that name (an array instead of a lazily built Vec)"""
    cands = [b for p, b in sorted(ctx.facts.bodies.items())
             if re.search(r'(^|::)%s as core::ops::Deref>::deref::__static_ref_initialize$' % name, p)
             or (b.kind in ('const', 'static') and re.search(r'(^|::)%s$' % name, p) and str(b.locals.get(0, '')).startswith('['))]
    if len(cands) != 1:
        raise AnchorLost('expected exactly one definition of the registry %s (lazy_static initialiser or const / static item), found %d' % (name, len(cands)))
    return cands[0]


@cached
def regex_parsers(ctx):
    """ordered [(family, parser fn path)] from TOKEN_REGEX_PARSER"""
    b = registry_body(ctx, 'TOKEN_REGEX_PARSER')
    out = _vec_of_tuples(b)
    if any(k is None or f is None for k, f in out):
        raise AnchorLost('TOKEN_REGEX_PARSER: non-constant entry')
    return out


@cached
def language_parsers(ctx):
    b = registry_body(ctx, 'LANGUAGE_BASED_TOKEN_PARSER')
    return [f for _, f in _vec_of_tuples(b)]


def variant_string_table(ctx, fn_regex, enum_path):
    """for `fn f(&self) -> String { match self { V(..) => "S".to_string(), .. } }`: {variant: "S"}"""
    b = ctx.facts.one(fn_regex)
    adt = ctx.facts.adts.get(enum_path)
    if not adt:
        raise AnchorLost('enum %s not found' % enum_path)
    by_discr = {v['discr']: v['name'] for v in adt['variants']}
    out = {}
    ret = b.local_expr(0)
    for a, conds in alternatives(b, ret):
        s = const_str(a)
        if s is None:
            continue
        for d, v in conds:
            if strip(d)[0] == 'discr' and not isinstance(v, tuple) and len(v) == 1:
                name = by_discr.get(list(v)[0])
                if name:
                    out[name] = s
    return out


@cached
def token_type_names(ctx):
    """TokenType variant -> type_name() string"""
    t = variant_string_table(ctx, r'^types::TokenType::type_name$', 'types::TokenType')
    if len(t) < 10:
        raise AnchorLost('TokenType::type_name table not extractable (%d rows)' % len(t))
    return t


@cached
def field_type_names(ctx):
    """"NUMBER" -> FieldType variant, from get_field_type's string match"""
    b = ctx.facts.one(r'regex_tokinizer::field::get_field_type$')
    out = {}
    for i in b.normal_blocks:
        for s in b.blocks[i]['stmts']:
            if s['k'] == 'assign' and s['rv'] == 'aggr' and s['adt'].startswith('types::FieldType::'):
                variant = s['adt'].rsplit('::', 1)[1]
                for d, v in [(d, v) for (_, d, v) in b.conditions(i)]:
                    ds = strip(d)
                    if ds[0] == 'call' and re.search(r'PartialEq.*::eq$', ds[1]):
                        lit = [const_str(x) for x in ds[2]]
                        lit = [x for x in lit if x]
                        truthy = (isinstance(v, tuple) and 0 in v[1]) or (not isinstance(v, tuple) and 0 not in v)
                        if lit and truthy:
                            out[lit[0]] = variant
    if len(out) < 10:
        raise AnchorLost('get_field_type table not extractable (%d rows)' % len(out))
    return out


@cached
def field_compare_table(ctx):
    """FieldType variant -> set of TokenType variants it accepts, from TokenType::field_compare.
    Group -> {Text}; TypeGroup is resolved through config.json type_group by the caller."""
    b = ctx.facts.one(r'^types::TokenType::field_compare$')
    fadt = ctx.facts.adts['types::FieldType']
    tadt = ctx.facts.adts['types::TokenType']
    fby = {v['discr']: v['name'] for v in fadt['variants']}
    tby = {v['discr']: v['name'] for v in tadt['variants']}
    out = {}
    # any block whose conditions pin both discriminants and that does not lead only to `false`
    for i in b.normal_blocks:
        conds = b.conditions(i)
        fv = tv = None
        for (_, d, v) in conds:
            ds = strip(d)
            if ds[0] != 'discr' or isinstance(v, tuple) or len(v) != 1:
                continue
            base = render(ds[1])
            if base == 'field':
                fv = fby.get(list(v)[0])
            elif base == 'self':
                tv = tby.get(list(v)[0])
        if fv and tv:
            out.setdefault(fv, set()).add(tv)
    # arms that end in constant false for all tokens are not expressible here; the (_, _) => false arm has no pinned pair
    if len(out) < 10:
        raise AnchorLost('field_compare table not extractable (%d rows)' % len(out))
    return out


def accepted_token_kinds(ctx, ftype, extra=None):
    """token type_name strings that a pattern field {FTYPE:..} can match"""
    names = field_type_names(ctx)
    tnames = token_type_names(ctx)
    fc = field_compare_table(ctx)
    if ftype in names:
        variant = names[ftype]
        return {tnames[t] for t in fc.get(variant, ()) if t in tnames}
    grp = ctx.config.j.get('type_group', {}).get(ftype)
    if grp is not None:
        return set(grp)
    return None


@cached
def getter_accepts(ctx):
    """tools::get_X -> set of TokenType variants for which it can return Some (from its match arms)"""
    out = {}
    for b in ctx.facts.find(r'^tokinizer::tools::get_[a-z_]+$'):
        kinds = set()
        # the match on the token kind may sit in a closure the getter hands to a shared lookup helper
        for bb in [b] + list(closures_of(ctx, b)):
            for i in bb.normal_blocks:
                for s in bb.blocks[i]['stmts']:
                    if s['k'] != 'assign':
                        continue
                    for o in s['ops']:
                        p = o.get('copy') or o.get('move')
                        if not p:
                            continue
                        ty_chain = p['proj']
                        for n, pe in enumerate(ty_chain):
                            if isinstance(pe, dict) and 'downcast' in pe:
                                # is the downcast on a TokenType place?
                                nxt = ty_chain[n + 1] if n + 1 < len(ty_chain) else None
                                if isinstance(nxt, dict) and 'field' in nxt and nxt['field'].startswith('types::TokenType.'):
                                    kinds.add(pe['downcast'])
        callees = set(t['callee']['path'] for _, t in b.calls(r'^tokinizer::tools::get_') if t.get('callee'))
        out[b.path] = (kinds, callees)
    # compose: get_number_or_price = get_number U get_money ...
    res = {}
    for p, (kinds, callees) in out.items():
        k = set(kinds)
        for c in callees:
            if c in out:
                k |= out[c][0]
        res[p.rsplit('::', 1)[1]] = k
    if 'get_number' not in res:
        raise AnchorLost('tools::get_number not found')
    return res


def fields_read(ctx, b):
    """field names a rule function looks at: [(name, how, terminator)] with how = 'contains_key' | 'get' | getter name.
    Calls written in closures of b or in helpers b delegates to count (arguments resolved into b's terms)."""
    out = []
    fields_names = {'fields', str(b.arg_names.get(3))} if b.argc >= 3 else {'fields'}
    for hb, t, args in deep_calls(ctx, b, r'BTreeMap::<.*>::(contains_key|get)$|^tokinizer::tools::get_', depth=2, skip=r'^tokinizer::tools::|^tools::'):
        path = t['callee']['path']
        strs = [const_str(a) for a in args]
        on_fields = any(render(a) in fields_names for a in args)
        if not on_fields:
            continue
        lit = [s for s in strs if s is not None]
        if re.search(r'BTreeMap::<.*>::contains_key$', path) and lit:
            out.append((lit[0], 'contains_key', t))
        elif re.search(r'BTreeMap::<.*>::get$', path) and lit:
            out.append((lit[0], 'get', t))
        elif re.match(r'^tokinizer::tools::get_', path) and lit:
            out.append((lit[0], path.rsplit('::', 1)[1], t))
    return out


@cached
def date_patterns(ctx):
    """language -> [pattern] passed to set_date_rule in SmartCalc::default.
    The body is straight-line: walk it from bb0; every array literal of `"..".to_string()` elements is the
    `vec![..]` consumed by the next set_date_rule call."""
    b = ctx.facts.one(r'^<smartcalc::SmartCalc as core::default::Default>::default$')
    out = {}
    pending = None
    cur = 0
    seen = set()
    while cur is not None and cur not in seen:
        seen.add(cur)
        bl = b.blocks[cur]
        for s in bl['stmts']:
            if s['k'] == 'assign' and s['rv'] == 'aggr' and s['adt'] == 'array':
                pats = [const_str(b.expr(o)) for o in s['ops']]
                if any(p is None for p in pats):
                    raise AnchorLost('SmartCalc::default: date pattern list with a non-constant element at %s' % s['loc'])
                pending = pats
        t = bl['term']
        if t['k'] == 'call' and t.get('callee') and t['callee']['path'].endswith('SmartCalc::set_date_rule'):
            lang = const_str(b.expr(t['args'][1]))
            if lang is None or pending is None:
                raise AnchorLost('SmartCalc::default: set_date_rule call with non-constant language or pattern list at %s' % t['loc'])
            out.setdefault(lang, [])
            out[lang] += pending
            pending = None
        nxt = b.succs(cur)
        cur = nxt[0] if len(nxt) == 1 else None
    if not out:
        out = _date_patterns_from_table(ctx, b)
    if not out:
        raise AnchorLost('SmartCalc::default no longer installs date rules')
    return out


def _const_strs(ctx, e, depth=0):
    """the string elements of a constant array / slice expression (an array literal, a promoted constant, a `const` item)"""
    x = e
    for _ in range(12):
        if x[0] in ('ref', 'deref'):
            x = x[1]
        elif x[0] == 'cast':
            x = x[3]
        else:
            break
    if x[0] == 'aggr' and x[1] == 'array':
        vals = [const_str(a) for a in x[2]]
        return None if any(v is None for v in vals) else vals
    if x[0] == 'const' and x[2] is None and depth < 4:
        txt = str(x[3])
        m = re.fullmatch(r'const (.*)::promoted\[(\d+)\]', txt)
        kb = None
        if m:
            kb = ctx.facts.bodies.get('%s::{promoted#%s}' % (m.group(1), m.group(2)))
        elif txt.startswith('const '):
            kb = ctx.facts.bodies.get(txt[6:])
        if kb is not None and not kb.loops():
            return _const_strs(ctx, kb.ret_expr(), depth + 1)
    return None


def _date_patterns_from_table(ctx, b):
    """the default date rules kept in a `const` table of (language, patterns) rows that SmartCalc::default walks"""
    from .interval import _array_column
    out = {}
    bodies = [b] + list(closures_of(ctx, b))
    for bb in bodies:
        for bid, t in bb.calls(r'SmartCalc::set_date_rule$'):
            langs = _array_column(strip(bb.expr(t['args'][1])))
            if not langs:
                continue
            rows = None
            for x in walk(bb.expr(t['args'][2])):
                col = _array_column(strip(x)) if x[0] in ('field', 'ref', 'deref', 'call') else None
                if col and len(col) == len(langs) and all(_const_strs(ctx, c) is not None for c in col):
                    rows = [_const_strs(ctx, c) for c in col]
                    break
            if rows is None:
                raise AnchorLost('SmartCalc::default: the pattern column of the date rule table is not constant at %s' % t['loc'])
            for lg, pats in zip(langs, rows):
                lgs = const_str(lg)
                if lgs is None:
                    raise AnchorLost('SmartCalc::default: a language of the date rule table is not constant')
                out.setdefault(lgs, [])
                out[lgs] += pats
    return out


def all_patterns(ctx, lang):
    """every (rule name, pattern, origin) that can reach the rewrite loop for a language"""
    out = []
    for rn, r in ctx.config.languages[lang]['rules'].items():
        for p in r['rules']:
            out.append((rn, p, 'config.json languages.%s.rules.%s' % (lang, rn)))
    for p in date_patterns(ctx).get(lang, []):
        out.append(('small_date', p, 'SmartCalc::default set_date_rule(%s)' % lang))
    return out


# ---------------------------------------------------------------------------------------------
# helper / closure transparency: calls made on behalf of a function by the closures it creates and by private helpers that
# only it calls, with their arguments expressed in terms of the *root* function's values
def _closure_sites(facts, parent):
    """closure path -> aggregate expression (captures) as built in `parent`"""
    out = {}
    for i in parent.normal_blocks:
        for st in parent.blocks[i]['stmts']:
            if st['k'] == 'assign' and st['rv'] == 'aggr' and st.get('adt', '').startswith('closure:'):
                out[st['adt'][8:]] = ('aggr', st['adt'], [parent.expr(o) for o in st['ops']], st.get('fields', []))
    return out


def deep_calls(ctx, root, rx, depth=2, skip=None):
    """[(body where the call is written, terminator, [argument expressions resolved into root's terms])] for calls matching
    `rx` in root, in the closures root creates, and in crate-local helpers called directly from root (to `depth`)"""
    from .facts import subst_args
    facts = ctx.facts
    out = []

    def visit(body, subst, d, seen):
        for bid, t in body.calls():
            c = t.get('callee')
            if not c:
                continue
            args = [body.expr(a) for a in t['args']]
            if subst is not None:
                args = [subst_args(a, subst) for a in args]
            if re.search(rx, c['path']):
                out.append((body, t, args))
            if d > 0 and c.get('local') and c['path'] in facts.bodies and c['path'] not in seen and not (skip and re.search(skip, c['path'])):
                hb = facts.bodies[c['path']]
                if hb.kind in ('fn', 'method') and hb.file.startswith('src/') and len(args) == hb.argc and (ctx.cg.owner_step(hb.path) is not None or (len(hb.blocks) <= 60 and not re.search(r' as .*>::', hb.path) and hb.file == body.file)):
                    visit(hb, args, d - 1, seen | {c['path']})
        for cpath, agg in _closure_sites(facts, body).items():
            cb = facts.bodies.get(cpath)
            if cb is None or cpath in seen:
                continue
            a2 = subst_args(agg, subst) if subst is not None else agg
            env = [a2] + [('arg', j + 1, cb.arg_names.get(j + 1)) for j in range(1, cb.argc)]
            visit(cb, env, d, seen | {cpath})
    visit(root, None, depth, {root.path})
    return out


def session_fields(ctx):
    """where a Session keeps its lines and its line cursor, by type: the field (of Session itself or of a crate-local struct it
    holds by value) of type Vec<String> and the one of type Cell<usize>.
    -> {'lines': qualified field id, 'cursor': qualified field id, 'container': qualified id of the Session field that holds a
    struct with both (or None), 'lines_name', 'cursor_name'}"""
    adt = ctx.facts.adts.get('session::Session')
    if not adt:
        raise AnchorLost('struct session::Session not found')
    found = {'lines': [], 'cursor': []}

    def scan(owner, fields, via):
        for f in fields:
            ty = str(f.get('ty', ''))
            fid = '%s.%s' % (owner, f['name'])
            if re.fullmatch(r'alloc::vec::Vec<alloc::string::String>', ty):
                found['lines'].append((fid, via))
            elif re.fullmatch(r'core::cell::Cell<usize>', ty):
                found['cursor'].append((fid, via))
            elif via is None and ty in ctx.facts.adts and ctx.facts.adts[ty].get('kind') == 'struct' and not ty.startswith(('alloc::', 'core::')):
                scan(ty, ctx.facts.adts[ty]['variants'][0]['fields'], fid)
    scan('session::Session', adt['variants'][0]['fields'], None)
    if len(found['lines']) != 1 or len(found['cursor']) != 1:
        raise AnchorLost('Session: expected one Vec<String> (the lines) and one Cell<usize> (the cursor), found %d and %d' % (len(found['lines']), len(found['cursor'])))
    (lid, lvia), (cid, cvia) = found['lines'][0], found['cursor'][0]
    return {'lines': lid, 'cursor': cid, 'container': lvia if lvia is not None and lvia == cvia else None,
            'lines_name': lid.rsplit('.', 1)[1], 'cursor_name': cid.rsplit('.', 1)[1]}
