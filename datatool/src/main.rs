// E7a - regex structure exporter. Reads a JSON array of regex pattern strings on stdin and
// writes, for each, the regex-syntax HIR (the same parser/translator the `regex` crate that
// smartcalc links uses) as a JSON tree.
// A second mode (E7b, argv[1] == "find") evaluates configured patterns on given sample strings with the `regex` crate
// itself: stdin is a JSON array of {"pattern", "hay"}; the answer lists, per item, the successive non-overlapping
// leftmost-first matches (what Regex::captures_iter yields) with the spans of their named groups. Only data from
// config.json and sample strings chosen by the rules are involved; no smartcalc code is run.
use regex_syntax::hir::{Class, Hir, HirKind, Look};
use serde_json::{json, Value};
use std::io::Read;

fn hir_json(h: &Hir) -> Value {
    let p = h.properties();
    let base = match h.kind() {
        HirKind::Empty => json!({"k": "empty"}),
        HirKind::Literal(l) => json!({"k": "lit", "s": String::from_utf8_lossy(&l.0)}),
        HirKind::Class(Class::Unicode(c)) => {
            let r: Vec<Value> = c.ranges().iter().map(|r| json!([r.start() as u32, r.end() as u32])).collect();
            json!({"k": "class", "unicode": true, "ranges": r})
        }
        HirKind::Class(Class::Bytes(c)) => {
            let r: Vec<Value> = c.ranges().iter().map(|r| json!([r.start() as u32, r.end() as u32])).collect();
            json!({"k": "class", "unicode": false, "ranges": r})
        }
        HirKind::Look(l) => {
            let n = match l {
                Look::Start => "start",
                Look::End => "end",
                Look::StartLF => "start_lf",
                Look::EndLF => "end_lf",
                Look::StartCRLF => "start_crlf",
                Look::EndCRLF => "end_crlf",
                Look::WordAscii => "word_ascii",
                Look::WordAsciiNegate => "word_ascii_neg",
                Look::WordUnicode => "word",
                Look::WordUnicodeNegate => "word_neg",
                _ => "other",
            };
            json!({"k": "look", "look": n})
        }
        HirKind::Repetition(r) => json!({"k": "rep", "min": r.min, "max": r.max, "greedy": r.greedy, "sub": hir_json(&r.sub)}),
        HirKind::Capture(c) => json!({"k": "cap", "index": c.index, "name": c.name.as_deref(), "sub": hir_json(&c.sub)}),
        HirKind::Concat(v) => json!({"k": "concat", "subs": v.iter().map(hir_json).collect::<Vec<_>>()}),
        HirKind::Alternation(v) => json!({"k": "alt", "subs": v.iter().map(hir_json).collect::<Vec<_>>()}),
    };
    let mut m = base.as_object().unwrap().clone();
    m.insert("minlen".into(), json!(p.minimum_len()));
    m.insert("maxlen".into(), json!(p.maximum_len()));
    Value::Object(m)
}

fn find_mode(s: &str) {
    let items: Vec<Value> = serde_json::from_str(s).expect("stdin: JSON array of {pattern, hay}");
    let mut out = vec![];
    let mut compiled: std::collections::HashMap<String, Result<regex::Regex, String>> = std::collections::HashMap::new();
    for it in items.iter() {
        let p = it["pattern"].as_str().unwrap_or("");
        let hay = it["hay"].as_str().unwrap_or("");
        let entry = compiled.entry(p.to_string()).or_insert_with(|| regex::Regex::new(p).map_err(|e| e.to_string()));
        match entry {
            Ok(re) => {
                let names: Vec<String> = re.capture_names().flatten().map(|n| n.to_string()).collect();
                let mut ms = vec![];
                for c in re.captures_iter(hay) {
                    let m0 = c.get(0).unwrap();
                    let mut groups = serde_json::Map::new();
                    for n in names.iter() {
                        if let Some(g) = c.name(n) {
                            groups.insert(n.clone(), json!([g.start(), g.end(), g.as_str()]));
                        }
                    }
                    ms.push(json!({"start": m0.start(), "end": m0.end(), "text": m0.as_str(), "groups": groups}));
                }
                out.push(json!({"ok": true, "matches": ms}));
            }
            Err(e) => out.push(json!({"ok": false, "error": e.clone()})),
        }
    }
    println!("{}", serde_json::to_string(&out).unwrap());
}

fn main() {
    let mut s = String::new();
    std::io::stdin().read_to_string(&mut s).unwrap();
    if std::env::args().nth(1).as_deref() == Some("find") {
        find_mode(&s);
        return;
    }
    let pats: Vec<String> = serde_json::from_str(&s).expect("stdin: JSON array of strings");
    let mut out = vec![];
    for p in pats.iter() {
        match regex_syntax::ParserBuilder::new().build().parse(p) {
            Ok(h) => out.push(json!({"pattern": p, "ok": true, "hir": hir_json(&h)})),
            Err(e) => out.push(json!({"pattern": p, "ok": false, "error": e.to_string()})),
        }
    }
    println!("{}", serde_json::to_string(&out).unwrap());
}
