// E7a - regex structure exporter. Reads a JSON array of regex pattern strings on stdin and
// writes, for each, the regex-syntax HIR (the same parser/translator the `regex` crate that
// smartcalc links uses) as a JSON tree. No matching is performed; all reasoning is in scv/.
use regex_syntax::hir::{Class, Hir, HirKind, Look};
use serde_json::{json, Value};
use std::io::Read;

fn hir_json(h: &Hir) -> Value {
    let p = h.properties();
    let base = match h.kind() {
        HirKind::Empty => json!({"k": "empty"}),
        HirKind::Literal(l) => json!({"k": "lit", "s": String::from_utf8_lossy(&l.0)}),
        HirKind::Class(Class::Unicode(c)) => {
            let r: Vec<Value> = c.ranges().iter().map(|r| json!([r.start() as u32, r.end() as u32])).collect();
            json!({"k": "class", "unicode": true, "ranges": r})
        }
        HirKind::Class(Class::Bytes(c)) => {
            let r: Vec<Value> = c.ranges().iter().map(|r| json!([r.start() as u32, r.end() as u32])).collect();
            json!({"k": "class", "unicode": false, "ranges": r})
        }
        HirKind::Look(l) => {
            let n = match l {
                Look::Start => "start",
                Look::End => "end",
                Look::StartLF => "start_lf",
                Look::EndLF => "end_lf",
                Look::StartCRLF => "start_crlf",
                Look::EndCRLF => "end_crlf",
                Look::WordAscii => "word_ascii",
                Look::WordAsciiNegate => "word_ascii_neg",
                Look::WordUnicode => "word",
                Look::WordUnicodeNegate => "word_neg",
                _ => "other",
            };
            json!({"k": "look", "look": n})
        }
        HirKind::Repetition(r) => json!({"k": "rep", "min": r.min, "max": r.max, "greedy": r.greedy, "sub": hir_json(&r.sub)}),
        HirKind::Capture(c) => json!({"k": "cap", "index": c.index, "name": c.name.as_deref(), "sub": hir_json(&c.sub)}),
        HirKind::Concat(v) => json!({"k": "concat", "subs": v.iter().map(hir_json).collect::<Vec<_>>()}),
        HirKind::Alternation(v) => json!({"k": "alt", "subs": v.iter().map(hir_json).collect::<Vec<_>>()}),
    };
    let mut m = base.as_object().unwrap().clone();
    m.insert("minlen".into(), json!(p.minimum_len()));
    m.insert("maxlen".into(), json!(p.maximum_len()));
    Value::Object(m)
}

fn main() {
    let mut s = String::new();
    std::io::stdin().read_to_string(&mut s).unwrap();
    let pats: Vec<String> = serde_json::from_str(&s).expect("stdin: JSON array of strings");
    let mut out = vec![];
    for p in pats.iter() {
        match regex_syntax::ParserBuilder::new().build().parse(p) {
            Ok(h) => out.push(json!({"pattern": p, "ok": true, "hir": hir_json(&h)})),
            Err(e) => out.push(json!({"pattern": p, "ok": false, "error": e.to_string()})),
        }
    }
    println!("{}", serde_json::to_string(&out).unwrap());
}
