#!/bin/sh
# MANIFEST.setup_cmd - builds the two Rust helpers offline from files on disk only:
#   driver/    E0 fact exporter (nightly, rustc_private, zero cargo deps)
#   datatool/  E7a regex-syntax HIR exporter (stable; regex-syntax + serde_json from the cargo cache)
set -e
cd "$(dirname "$0")"
export CARGO_NET_OFFLINE=true
mkdir -p .work evidence
(cd driver && CARGO_TARGET_DIR=../.work/driver-target cargo +nightly build --offline 2>&1 | tail -3)
(cd datatool && CARGO_TARGET_DIR=../.work/datatool-target cargo build --offline --release 2>&1 | tail -3)
test -x .work/driver-target/debug/scv-driver
test -x .work/datatool-target/release/scv-datatool
echo "setup ok"
