#!/usr/bin/env python3
"""Self-test of the checker: apply each mutant (find/replace edits) to a scratch copy of /repo under /tmp,
run the listed property checks against the copy, and compare with the expectation:
  violating mutants must produce a VIOLATION whose key matches `expect[prop]`;
  benign variants must produce no VIOLATION for the listed properties.
usage: selftest/run.py [name-substring ...] [--suite] [--keep] [-j N]
  --suite   also run the repository's test-suite in the copy and require 142 passes (slow)
Scratch copies are deleted as soon as their verdict is read."""
import concurrent.futures
import glob
import json
import os
import re
import shutil
import subprocess
import sys
import tempfile

HERE = os.path.dirname(os.path.abspath(__file__))
VERIF = os.path.dirname(HERE)
REPO = '/repo'


def make_copy(name):
    d = tempfile.mkdtemp(prefix='scv-mut-%s-' % re.sub(r'[^A-Za-z0-9]', '_', name)[:30], dir='/tmp')
    for f in ('Cargo.toml', 'Cargo.lock', 'build.rs'):
        shutil.copy(os.path.join(REPO, f), d)
    shutil.copytree(os.path.join(REPO, 'src'), os.path.join(d, 'src'))
    return d


def apply_edits(d, edits):
    for e in edits:
        p = os.path.join(d, e['file'])
        s = open(p, encoding='utf-8').read()
        n = s.count(e['find'])
        if n != e.get('count', 1):
            return 'edit does not apply: %r occurs %d times in %s' % (e['find'][:60], n, e['file'])
        s = s.replace(e['find'], e['replace'])
        open(p, 'w', encoding='utf-8').write(s)
    return None


def run_one(path, suite=False, keep=False):
    m = json.load(open(path))
    name = m['name']
    d = make_copy(name)
    res = {'name': name, 'ok': True, 'msgs': []}
    try:
        err = apply_edits(d, m['edits'])
        if err:
            res['ok'] = None
            res['msgs'].append('SKIP ' + err)
            return res
        if suite:
            env = dict(os.environ, CARGO_TARGET_DIR=os.path.join(d, 'target'), CARGO_NET_OFFLINE='true')
            p = subprocess.run(['cargo', 'test', '--offline', '--lib'], cwd=d, env=env, stdout=subprocess.PIPE, stderr=subprocess.STDOUT, text=True)
            mm = re.search(r'test result: \w+\. (\d+) passed; (\d+) failed', p.stdout)
            if not mm:
                res['ok'] = False
                res['msgs'].append('suite: does not compile / no result\n' + p.stdout[-1500:])
                return res
            failed = re.findall(r'^test (\S+) \.\.\. FAILED', p.stdout, re.M)
            if int(mm.group(1)) != 142 or failed != ['tests::general_test::date_tests']:
                res['ok'] = False
                res['msgs'].append('suite: %s passed, failed=%s (mutant is not test-silent)' % (mm.group(1), failed))
                return res
            res['msgs'].append('suite: 142 passed (+1 always-failing)')
        for prop in m['properties']:
            p = subprocess.run([os.path.join(VERIF, 'check'), prop, '--repo', d, '--tier', 'quick'], cwd=VERIF, stdout=subprocess.PIPE, stderr=subprocess.PIPE, text=True,
                               env=dict(os.environ, SCV_NO_EVIDENCE='1'))
            keys = re.findall(r'^\s+key (\S+)', p.stdout, re.M)
            viol = 'VIOLATION property=' in p.stdout
            if m.get('benign'):
                if viol or p.returncode != 0:
                    res['ok'] = False
                    res['msgs'].append('%s: benign variant raised an alarm: %s (rc=%d)' % (prop, keys[:4], p.returncode))
                else:
                    res['msgs'].append('%s: silent as required' % prop)
            else:
                exp = m['expect'].get(prop)
                hit = [k for k in keys if exp and re.search(exp, k)]
                if not viol or (exp and not hit):
                    res['ok'] = False
                    res['msgs'].append('%s: MISSED (rc=%d, keys=%s, expected /%s/)%s' % (prop, p.returncode, keys[:5], exp, ('\n' + p.stderr[-800:]) if p.stderr.strip() else ''))
                else:
                    res['msgs'].append('%s: caught %s' % (prop, (hit or keys)[:2]))
        return res
    finally:
        if not keep:
            shutil.rmtree(d, ignore_errors=True)
        else:
            res['msgs'].append('kept ' + d)


def main():
    args = [a for a in sys.argv[1:] if not a.startswith('-')]
    suite = '--suite' in sys.argv
    keep = '--keep' in sys.argv
    jobs = 4
    if '-j' in sys.argv:
        jobs = int(sys.argv[sys.argv.index('-j') + 1])
        args = [a for a in args if a != str(jobs)]
    files = sorted(glob.glob(os.path.join(HERE, 'mutants', '*.json')))
    if args:
        files = [f for f in files if any(a in os.path.basename(f) for a in args)]
    bad = 0
    with concurrent.futures.ThreadPoolExecutor(max_workers=jobs) as ex:
        for res in ex.map(lambda f: run_one(f, suite, keep), files):
            tag = {True: 'PASS', False: 'FAIL', None: 'SKIP'}[res['ok']]
            print('%s %s' % (tag, res['name']))
            for msg in res['msgs']:
                print('      ' + msg)
            if res['ok'] is False:
                bad += 1
    print('%d mutants, %d failed expectations' % (len(files), bad))
    return 1 if bad else 0


if __name__ == '__main__':
    sys.exit(main())
